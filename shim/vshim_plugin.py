import vboot
