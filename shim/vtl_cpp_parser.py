"""Pure-Python stand-in for vtlengine's compiled ``vtl_cpp_parser`` extension.

Interprets /repo's own Vtl.g4 / VtlTokens.g4 (read at import time
from the working tree) with ANTLR4 semantics:

* lexer: maximal munch over all lexer rules, ties broken by rule order, channels honoured;
* parser: ordered alternatives, greedy EBNF loops, ANTLR's precedence-climbing rewrite of the
  left-recursive rules (precedence = number of alternatives - index, binary alternatives
  left-associative, the right-most recursive reference receives prec+1 / prec);
* tree: one ParseNode per rule invocation, (rule_index, alt_index) taken from the
  g_type_map table in bindings.cpp, token types from VtlTokens.g4 order, constants exported
  under the names that bindings.cpp exports.

It also models the *ownership contract* of the native module: the tree of the last parse()
lives in a process-global buffer; nodes of an older parse are dangling.  Touching such a node
raises StaleParseTree (the sanitizer-style monitor used for C17).
"""

from __future__ import annotations

import os
import re
import sys
import threading
from pathlib import Path
from typing import Any, Dict, List, Optional, Tuple

_REPO = Path(os.environ.get("VTL_REPO", "/repo"))
_GDIR = _REPO / "src" / "vtlengine" / "AST" / "Grammar"

sys.setrecursionlimit(max(sys.getrecursionlimit(), 20000))


# ----------------------------------------------------------------------------------------------
# .g4 meta-lexer
# ----------------------------------------------------------------------------------------------
_META = re.compile(
    r"""
    (?P<ws>\s+)
  | (?P<mlc>/\*.*?\*/)
  | (?P<slc>//[^\n]*)
  | (?P<str>'(?:\\.|[^'\\])*')
  | (?P<set>\[(?:\\.|[^\]\\])*\])
  | (?P<arrow>->)
  | (?P<pluseq>\+=)
  | (?P<qq>\*\?|\+\?|\?\?)
  | (?P<id>[A-Za-z_][A-Za-z_0-9]*)
  | (?P<int>[0-9]+)
  | (?P<sym>[:;|()*+?~.\#=,{}])
    """,
    re.X | re.S,
)


def _meta_tokens(text: str) -> List[Tuple[str, str]]:
    out = []
    pos = 0
    while pos < len(text):
        m = _META.match(text, pos)
        if not m:
            raise SyntaxError(f"g4: cannot tokenise at {pos}: {text[pos:pos+30]!r}")
        kind = m.lastgroup
        if kind not in ("ws", "mlc", "slc"):
            out.append((kind, m.group()))
        pos = m.end()
    return out


class _Elem:
    __slots__ = ("kind", "value", "alts", "suffix", "neg")

    def __init__(self, kind, value=None, alts=None):
        self.kind = kind  # 'tok' | 'rule' | 'block' | 'lit' | 'set' | 'any'
        self.value = value
        self.alts = alts  # for block: list of list[_Elem]
        self.suffix = ""
        self.neg = False


class _G4:
    """Parses the body of a grammar file into {rule: (alts, labels, commands, fragment)}."""

    def __init__(self, text: str):
        self.t = _meta_tokens(text)
        self.i = 0
        self.rules: Dict[str, Any] = {}
        self.order: List[str] = []
        self._parse()

    def _peek(self):
        return self.t[self.i] if self.i < len(self.t) else ("eof", "")

    def _next(self):
        tok = self._peek()
        self.i += 1
        return tok

    def _expect(self, val):
        k, v = self._next()
        if v != val:
            raise SyntaxError(f"g4: expected {val!r} got {v!r}")

    def _parse(self):
        # header: (lexer|parser)? grammar X ;
        while self._peek()[1] != "grammar":
            self._next()
        self._next()
        self._next()
        self._expect(";")
        while self._peek()[0] != "eof":
            k, v = self._peek()
            if v == "options":
                while self._next()[1] != "}":
                    pass
                continue
            fragment = False
            if v == "fragment":
                fragment = True
                self._next()
            name = self._next()[1]
            self._expect(":")
            alts, labels, commands = self._alts(top=True)
            self._expect(";")
            self.rules[name] = {
                "alts": alts,
                "labels": labels,
                "commands": commands,
                "fragment": fragment,
            }
            self.order.append(name)

    def _alts(self, top=False):
        alts, labels, commands = [], [], []
        while True:
            seq, label, cmd = self._seq()
            alts.append(seq)
            labels.append(label)
            commands.append(cmd)
            if self._peek()[1] == "|":
                self._next()
                continue
            break
        return alts, labels, commands

    def _seq(self):
        seq: List[_Elem] = []
        label = None
        cmd = None
        while True:
            k, v = self._peek()
            if v in ("|", ";", ")") or k == "eof":
                break
            if v == "#":
                self._next()
                label = self._next()[1]
                continue
            if k == "arrow":
                self._next()
                cname = self._next()[1]
                arg = None
                if self._peek()[1] == "(":
                    self._next()
                    arg = self._next()[1]
                    self._expect(")")
                cmd = (cname, arg)
                continue
            # element label  x= / x+=
            if k == "id" and self.i + 1 < len(self.t) and self.t[self.i + 1][1] in ("=", "+="):
                self._next()
                self._next()
                continue
            e = self._atom()
            k2, v2 = self._peek()
            if k2 == "qq":
                e.suffix = v2
                self._next()
            elif v2 in ("*", "+", "?"):
                e.suffix = v2
                self._next()
                # ANTLR also allows "* ?" separated; not used here.
            seq.append(e)
        return seq, label, cmd

    def _atom(self) -> _Elem:
        k, v = self._next()
        if v == "~":
            e = self._atom()
            e.neg = True
            return e
        if v == "(":
            alts, _, _ = self._alts()
            self._expect(")")
            return _Elem("block", alts=alts)
        if k == "str":
            return _Elem("lit", _unescape_lit(v[1:-1]))
        if k == "set":
            return _Elem("set", v[1:-1])
        if v == ".":
            return _Elem("any")
        if k == "id":
            return _Elem("tok" if v[0].isupper() else "rule", v)
        raise SyntaxError(f"g4: unexpected {v!r}")


def _unescape_lit(s: str) -> str:
    out = []
    i = 0
    while i < len(s):
        c = s[i]
        if c == "\\":
            n = s[i + 1]
            if n == "u":
                out.append(chr(int(s[i + 2 : i + 6], 16)))
                i += 6
                continue
            out.append({"n": "\n", "r": "\r", "t": "\t", "f": "\f", "b": "\b"}.get(n, n))
            i += 2
            continue
        out.append(c)
        i += 1
    return "".join(out)


def _set_to_class(body: str, neg: bool) -> str:
    # body is the inside of [...] in ANTLR syntax; translate to a python regex class
    out = []
    i = 0
    while i < len(body):
        c = body[i]
        if c == "\\":
            n = body[i + 1]
            if n == "u":
                out.append("\\u" + body[i + 2 : i + 6])
                i += 6
                continue
            if n in "nrtf":
                out.append("\\" + n)
            else:
                out.append(re.escape(n))
            i += 2
            continue
        if c == "-" and 0 < i < len(body) - 1:
            out.append("-")
        else:
            out.append(re.escape(c) if c in "[]^\\-" else c)
        i += 1
    return "[" + ("^" if neg else "") + "".join(out) + "]"


# ----------------------------------------------------------------------------------------------
# Lexer
# ----------------------------------------------------------------------------------------------
class _Token:
    __slots__ = ("type", "text", "line", "column", "start", "stop", "channel", "index")

    def __init__(self, type_, text, line, column, start, stop, channel):
        self.type = type_
        self.text = text
        self.line = line
        self.column = column
        self.start = start
        self.stop = stop
        self.channel = channel
        self.index = -1


class _Lexer:
    def __init__(self, g: _G4):
        self.g = g
        self.names = [n for n in g.order if not g.rules[n]["fragment"]]
        self.type_of = {n: i + 1 for i, n in enumerate(self.names)}
        self.channel_of: Dict[int, int] = {}
        self.literal_type: Dict[str, int] = {}
        self.complex: List[Tuple[int, List[Any]]] = []
        for n in self.names:
            r = g.rules[n]
            t = self.type_of[n]
            cmd = next((c for c in r["commands"] if c), None)
            if cmd and cmd[0] == "channel":
                self.channel_of[t] = int(cmd[1])
            elif cmd and cmd[0] == "skip":
                self.channel_of[t] = -1
            if len(r["alts"]) == 1 and len(r["alts"][0]) == 1 and r["alts"][0][0].kind == "lit" \
                    and not r["alts"][0][0].suffix and not r["alts"][0][0].neg:
                lit = r["alts"][0][0].value
                if lit not in self.literal_type:
                    self.literal_type[lit] = t
            else:
                regs = [re.compile(self._seq_re(alt), re.S) for alt in r["alts"]]
                self.complex.append((t, regs))
        lits = sorted(self.literal_type, key=len, reverse=True)
        self.lit_re = re.compile("|".join(re.escape(x) for x in lits))

    def _seq_re(self, seq) -> str:
        return "".join(self._elem_re(e) for e in seq)

    def _elem_re(self, e: _Elem) -> str:
        if e.kind == "lit":
            if e.neg:
                base = "[^" + re.escape(e.value) + "]"
            else:
                base = re.escape(e.value)
                if len(e.value) > 1 and e.suffix:
                    base = "(?:" + base + ")"
        elif e.kind == "set":
            base = _set_to_class(e.value, e.neg)
        elif e.kind == "any":
            base = r"[\s\S]"
        elif e.kind == "tok":
            r = self.g.rules[e.value]
            base = "(?:" + "|".join(self._seq_re(a) for a in r["alts"]) + ")"
        elif e.kind == "block":
            if e.neg:
                # ~( 'a' | 'b' ) : set of single chars
                chars = "".join(re.escape(a[0].value) for a in e.alts)
                base = "[^" + chars + "]"
            else:
                base = "(?:" + "|".join(self._seq_re(a) for a in e.alts) + ")"
        else:
            raise SyntaxError(f"lexer rule cannot reference parser rule {e.value}")
        return base + e.suffix

    def tokenize(self, text: str):
        tokens: List[_Token] = []
        errors: List[Tuple[int, int, str, int]] = []
        pos = 0
        line = 1
        col = 0
        n = len(text)
        lit_match = self.lit_re.match
        while pos < n:
            best_len = 0
            best_type = 0
            m = lit_match(text, pos)
            if m:
                best_len = m.end() - pos
                best_type = self.literal_type[m.group()]
            for t, regs in self.complex:
                for rg in regs:
                    mm = rg.match(text, pos)
                    if mm:
                        ln = mm.end() - pos
                        if ln > best_len or (ln == best_len and ln > 0 and t < best_type):
                            best_len = ln
                            best_type = t
            if best_len == 0:
                errors.append((line, col, f"token recognition error at: '{text[pos]}'", pos))
                if text[pos] == "\n":
                    line += 1
                    col = 0
                else:
                    col += 1
                pos += 1
                continue
            s = text[pos : pos + best_len]
            ch = self.channel_of.get(best_type, 0)
            if ch != -1:
                tokens.append(_Token(best_type, s, line, col, pos, pos + best_len - 1, ch))
            nl = s.count("\n")
            if nl:
                line += nl
                col = len(s) - s.rfind("\n") - 1
            else:
                col += best_len
            pos += best_len
        tokens.append(_Token(-1, "<EOF>", line, col, n, n - 1, 0))
        return tokens, errors


# ----------------------------------------------------------------------------------------------
# Parser (grammar interpreter)
# ----------------------------------------------------------------------------------------------
class _PElem:
    __slots__ = ("kind", "ttype", "rule", "alts", "suffix", "first", "nullable", "prec")

    def __init__(self):
        self.kind = ""
        self.ttype = 0
        self.rule = -1
        self.alts = None
        self.suffix = ""
        self.first = None
        self.nullable = False
        self.prec = 0


class _PAlt:
    __slots__ = ("elems", "ctx_id", "first", "nullable", "prec", "klass")


class _PRule:
    __slots__ = ("name", "index", "alts", "leftrec", "primary", "ops", "first", "nullable")


def _cap(s: str) -> str:
    return s[0].upper() + s[1:]


class _Grammar:
    def __init__(self):
        self.lex_g = _G4((_GDIR / "VtlTokens.g4").read_text())
        self.par_g = _G4((_GDIR / "Vtl.g4").read_text())
        self.lexer = _Lexer(self.lex_g)
        self.type_map = self._read_type_map()
        self.rule_index = {n: i for i, n in enumerate(self.par_g.order)}
        self.rules: List[_PRule] = []
        for n in self.par_g.order:
            self.rules.append(self._build_rule(n))
        self._compute_first()

    # -- (rule, alt) table from bindings.cpp ---------------------------------------------------
    def _read_type_map(self) -> Dict[str, Tuple[str, int]]:
        txt = (_GDIR / "_cpp_parser" / "bindings.cpp").read_text()
        out = {}
        for m in re.finditer(
            r"g_type_map\[typeid\(Vtl::(\w+)Context\)\]\s*=\s*\{Vtl::Rule(\w+),\s*(-?\d+)\}", txt
        ):
            out[m.group(1)] = (m.group(2), int(m.group(3)))
        return out

    def _ctx_id(self, rule: str, label: Optional[str]) -> Tuple[int, int]:
        key = _cap(label) if label else _cap(rule)
        ridx = self.rule_index[rule]
        if key in self.type_map:
            rname, alt = self.type_map[key]
            # rule names in the table are capitalised rule names
            for n, i in self.rule_index.items():
                if _cap(n) == rname:
                    return (i, alt)
        return (ridx, -1)

    def _conv(self, e: _Elem) -> _PElem:
        p = _PElem()
        p.suffix = e.suffix
        if e.kind == "tok":
            p.kind = "tok"
            p.ttype = -1 if e.value == "EOF" else self.lexer.type_of[e.value]
        elif e.kind == "rule":
            p.kind = "rule"
            p.rule = self.rule_index[e.value]
        elif e.kind == "block":
            p.kind = "block"
            p.alts = [[self._conv(x) for x in a] for a in e.alts]
        else:
            raise SyntaxError(f"unsupported parser element {e.kind}")
        return p

    def _build_rule(self, name: str) -> _PRule:
        src = self.par_g.rules[name]
        r = _PRule()
        r.name = name
        r.index = self.rule_index[name]
        r.alts = []
        n = len(src["alts"])
        for i, (seq, label) in enumerate(zip(src["alts"], src["labels"])):
            a = _PAlt()
            a.elems = [self._conv(e) for e in seq]
            a.ctx_id = self._ctx_id(name, label)
            a.prec = n - i
            first_self = bool(a.elems) and a.elems[0].kind == "rule" and a.elems[0].rule == r.index \
                and not a.elems[0].suffix
            last_self = bool(a.elems) and a.elems[-1].kind == "rule" \
                and a.elems[-1].rule == r.index and not a.elems[-1].suffix
            if first_self and last_self and len(a.elems) >= 3:
                a.klass = "binary"
            elif first_self:
                a.klass = "suffix"
            elif last_self:
                a.klass = "prefix"
            else:
                a.klass = "primary"
            r.alts.append(a)
        r.leftrec = any(a.klass in ("binary", "suffix") for a in r.alts)
        if r.leftrec:
            for a in r.alts:
                # right-most recursive reference gets the precedence argument
                if a.klass == "binary":
                    a.elems[-1].prec = a.prec + 1
                elif a.klass == "prefix":
                    a.elems[-1].prec = a.prec
            r.primary = [a for a in r.alts if a.klass in ("primary", "prefix")]
            r.ops = [a for a in r.alts if a.klass in ("binary", "suffix")]
        return r

    # -- FIRST sets ---------------------------------------------------------------------------
    def _compute_first(self):
        for r in self.rules:
            r.first = set()
            r.nullable = False
        changed = True
        while changed:
            changed = False
            for r in self.rules:
                f, nl = set(), False
                for a in r.alts:
                    elems = a.elems[1:] if (r.leftrec and a.klass in ("binary", "suffix")) else a.elems
                    if r.leftrec and a.klass in ("binary", "suffix"):
                        continue
                    af, anl = self._seq_first(elems)
                    a.first, a.nullable = af, anl
                    f |= af
                    nl = nl or anl
                if f != r.first or nl != r.nullable:
                    r.first, r.nullable = f, nl
                    changed = True
        for r in self.rules:
            for a in r.alts:
                if r.leftrec and a.klass in ("binary", "suffix"):
                    a.first, a.nullable = self._seq_first(a.elems[1:])
                self._annotate(a.elems)

    def _annotate(self, elems):
        for e in elems:
            e.first, e.nullable = self._elem_first(e)
            if e.kind == "block":
                for a in e.alts:
                    self._annotate(a)

    def _elem_first(self, e: _PElem):
        if e.kind == "tok":
            f, nl = {e.ttype}, False
        elif e.kind == "rule":
            rr = self.rules[e.rule]
            f, nl = set(rr.first), rr.nullable
        else:
            f, nl = set(), False
            for a in e.alts:
                af, anl = self._seq_first(a)
                f |= af
                nl = nl or anl
        if e.suffix in ("?", "*", "??", "*?"):
            nl = True
        return f, nl

    def _seq_first(self, elems):
        f = set()
        for e in elems:
            ef, enl = self._elem_first(e)
            f |= ef
            if not enl:
                return f, False
        return f, True


class StaleParseTree(RuntimeError):
    """A node of a parse tree that the native module would already have freed was accessed."""


_generation = 0
_stale_accesses = 0


class TerminalNode:
    __slots__ = ("symbol_type", "text", "line", "column")
    is_terminal = True

    def __init__(self, tok: _Token):
        self.symbol_type = tok.type
        self.text = tok.text
        self.line = tok.line
        self.column = tok.column


class ParseNode:
    __slots__ = ("rule_index", "alt_index", "_children", "_start", "_stop", "_gen")
    is_terminal = False

    def __init__(self, ctx_id, children, start, stop, gen):
        self.rule_index, self.alt_index = ctx_id
        self._children = children
        self._start = start
        self._stop = stop
        self._gen = gen

    def _check(self):
        if self._gen != _generation:
            global _stale_accesses
            _stale_accesses += 1
            raise StaleParseTree(
                f"parse tree of generation {self._gen} accessed after parse #{_generation}"
            )

    @property
    def children(self):
        self._check()
        return self._children

    @property
    def ctx_id(self):
        return (self.rule_index, self.alt_index)

    @property
    def start_line(self):
        self._check()
        return self._start.line if self._start else 0

    @property
    def start_column(self):
        self._check()
        return self._start.column if self._start else 0

    @property
    def stop_line(self):
        self._check()
        return self._stop.line if self._stop else 0

    @property
    def stop_column(self):
        self._check()
        return self._stop.column if self._stop else 0

    @property
    def stop_text(self):
        self._check()
        return self._stop.text if self._stop else ""

    @property
    def text(self):
        self._check()
        out: List[str] = []
        stack = [self]
        while stack:
            n = stack.pop()
            if n.is_terminal:
                out.append(n.text)
            else:
                stack.extend(reversed(n._children))
        return "".join(out)


class _Parser:
    def __init__(self, g: _Grammar, tokens: List[_Token], gen: int):
        self.g = g
        self.toks = tokens
        self.types = [t.type for t in tokens]
        self.gen = gen
        self.memo: Dict[Tuple[int, int, int], List[Tuple[int, Any]]] = {}
        self.far = 0
        self.expected: set = set()
        self.term_cache: Dict[int, TerminalNode] = {}

    def _term(self, pos):
        t = self.term_cache.get(pos)
        if t is None:
            t = self.term_cache[pos] = TerminalNode(self.toks[pos])
        return t

    def _fail(self, pos, ttype):
        if pos > self.far:
            self.far = pos
            self.expected = {ttype}
        elif pos == self.far:
            self.expected.add(ttype)

    # sequence matching: generator of (end, children list) in priority order
    def seq(self, elems, i, pos):
        if i == len(elems):
            yield pos, []
            return
        e = elems[i]
        la = self.types[pos]
        sfx = e.suffix
        if sfx == "":
            if la not in e.first and not e.nullable:
                self._fail_first(pos, e)
                return
            for end, ch in self.one(e, pos):
                for end2, rest in self.seq(elems, i + 1, end):
                    yield end2, ch + rest
        elif sfx in ("?", "??"):
            def take():
                if la in e.first or e.nullable:
                    for end, ch in self.one(e, pos):
                        if end == pos:
                            continue
                        for end2, rest in self.seq(elems, i + 1, end):
                            yield end2, ch + rest
                else:
                    self._fail_first(pos, e)

            def skip():
                for end2, rest in self.seq(elems, i + 1, pos):
                    yield end2, rest

            if sfx == "?":
                yield from take()
                yield from skip()
            else:
                yield from skip()
                yield from take()
        else:
            greedy = sfx in ("*", "+")
            minimum = 1 if sfx[0] == "+" else 0
            yield from self.loop(e, elems, i, pos, minimum, greedy, [])

    def loop(self, e, elems, i, pos, minimum, greedy, acc):
        def more():
            la = self.types[pos]
            if la in e.first:
                for end, ch in self.one(e, pos):
                    if end == pos:
                        continue
                    yield from self.loop(e, elems, i, end, max(0, minimum - 1), greedy, acc + ch)
            else:
                self._fail_first(pos, e)

        def stop():
            if minimum == 0:
                for end2, rest in self.seq(elems, i + 1, pos):
                    yield end2, acc + rest

        if greedy:
            yield from more()
            yield from stop()
        else:
            yield from stop()
            yield from more()

    def _fail_first(self, pos, e):
        if pos >= self.far:
            for t in e.first:
                self._fail(pos, t)

    def one(self, e, pos):
        """Match a single occurrence of element e (ignoring its suffix)."""
        if e.kind == "tok":
            if self.types[pos] == e.ttype:
                yield pos + 1, [self._term(pos)]
            else:
                self._fail(pos, e.ttype)
        elif e.kind == "rule":
            for end, node in self.rule(e.rule, pos, e.prec):
                yield end, [node]
        else:
            la = self.types[pos]
            seen = set()
            for alt in e.alts:
                for end, ch in self.seq(alt, 0, pos):
                    yield end, ch

    def rule(self, ridx, pos, prec=0):
        key = (ridx, pos, prec)
        res = self.memo.get(key)
        if res is not None:
            return res
        r = self.g.rules[ridx]
        if r.leftrec:
            res = self._leftrec(r, pos, prec)
        else:
            res = []
            seen = set()
            la = self.types[pos]
            for a in r.alts:
                if la not in a.first and not a.nullable:
                    if pos >= self.far:
                        for t in a.first:
                            self._fail(pos, t)
                    continue
                for end, ch in self.seq(a.elems, 0, pos):
                    if end in seen:
                        continue
                    seen.add(end)
                    res.append((end, self._node(a.ctx_id, ch, pos, end)))
        self.memo[key] = res
        return res

    def _node(self, ctx_id, children, pos, end):
        start = self.toks[pos]
        stop = self.toks[end - 1] if end - 1 >= 0 else None
        return ParseNode(ctx_id, children, start, stop, self.gen)

    def _leftrec(self, r, pos, minprec):
        results: Dict[int, Any] = {}
        expanded = set()
        order: List[int] = []

        def extend(node, p):
            la = self.types[p]
            for a in r.ops:
                if a.prec < minprec:
                    continue
                if la not in a.first and not a.nullable:
                    if p >= self.far:
                        for t in a.first:
                            self._fail(p, t)
                    continue
                for end, ch in self.seq(a.elems, 1, p):
                    if end == p or end in expanded:
                        continue
                    expanded.add(end)
                    extend(self._node(a.ctx_id, [node] + ch, pos, end), end)
            if p not in results:
                results[p] = node
                order.append(p)

        la = self.types[pos]
        for a in r.primary:
            if la not in a.first and not a.nullable:
                if pos >= self.far:
                    for t in a.first:
                        self._fail(pos, t)
                continue
            for end, ch in self.seq(a.elems, 0, pos):
                if end in expanded:
                    continue
                expanded.add(end)
                extend(self._node(a.ctx_id, ch, pos, end), end)
        return [(p, results[p]) for p in order]


# ----------------------------------------------------------------------------------------------
# Module-level API (mirrors bindings.cpp)
# ----------------------------------------------------------------------------------------------
_G: Optional[_Grammar] = None
_G_lock = threading.Lock()


def _grammar() -> _Grammar:
    global _G
    if _G is None:
        with _G_lock:
            if _G is None:
                _G = _Grammar()
    return _G


class _State:
    input_text = ""
    comments: List[Dict[str, Any]] = []
    syntax_error: Optional[Dict[str, Any]] = None


_state = _State()
_TAB = 4
parse_calls = 0


def _source_line(text: str, line: int, col1: int) -> Tuple[str, int]:
    lines = text.split("\n")
    if line < 1 or line > len(lines):
        return "", col1
    src = lines[line - 1]
    out = []
    remapped = col1
    oc = 1
    for c in src:
        if oc == col1:
            remapped = len("".join(out)) + 1
        if c == "\t":
            out.append(" " * _TAB)
        elif c != "\r":
            out.append(c)
        oc += 1
    s = "".join(out)
    if col1 > oc:
        remapped = len(s) + 1
    return s, remapped


def _set_error(text, line, col0, msg, tok_text, ulen):
    if _state.syntax_error is not None:
        return
    src, c1 = _source_line(text, line, col0 + 1)
    _state.syntax_error = {
        "line": line,
        "column": c1 - 1,
        "message": msg,
        "offending_text": tok_text,
        "source_line": src,
        "underline_length": ulen,
    }


def parse(text: str) -> ParseNode:
    global _generation, parse_calls
    g = _grammar()
    parse_calls += 1
    _generation += 1
    gen = _generation
    _state.input_text = text
    _state.comments = []
    _state.syntax_error = None
    tokens, lex_errors = g.lexer.tokenize(text)
    for line, col, msg, _ in lex_errors[:1]:
        _set_error(text, line, col, msg, "", 1)
    ml = g.lexer.type_of["ML_COMMENT"]
    sl = g.lexer.type_of["SL_COMMENT"]
    _state.comments = [
        {"type": t.type, "text": t.text, "line": t.line, "column": t.column}
        for t in tokens
        if t.type in (ml, sl)
    ]
    main = [t for t in tokens if t.channel == 0]
    p = _Parser(g, main, gen)
    res = p.rule(0, 0, 0)
    root = None
    for end, node in res:
        if end == len(main):
            root = node
            break
    if root is None:
        tok = main[min(p.far, len(main) - 1)]
        names = {v: k for k, v in g.lexer.type_of.items()}
        names[-1] = "<EOF>"
        exp = sorted(names.get(t, str(t)) for t in p.expected)
        shown = tok.text if tok.type != -1 else "<EOF>"
        msg = f"mismatched input '{shown}' expecting {{{', '.join(exp)}}}"
        _set_error(text, tok.line, tok.column, msg, tok.text, max(1, tok.stop - tok.start + 1))
        root = ParseNode((0, -1), [], main[0], main[-1], gen)
    return root



def parse_private(text: str):
    """Harness-side parse that does not touch the module-global 'last parse' state.
    Returns (root or None, main-channel tokens, all tokens incl. comments)."""
    g = _grammar()
    tokens, lex_errors = g.lexer.tokenize(text)
    main = [t for t in tokens if t.channel == 0]
    p = _Parser(g, main, -1)
    root = None
    for end, node in p.rule(0, 0, 0):
        if end == len(main):
            root = node
            break
    if lex_errors:
        root = None
    return root, main, tokens


def split_statements(text: str):
    """Character spans of the top-level statements of a script: list of source substrings (without the ';')."""
    root, main, _ = parse_private(text)
    if root is None:
        return None
    out = []
    for ch in root._children:
        if ch.is_terminal:
            continue
        out.append(text[ch._start.start: ch._stop.stop + 1])
    return out


def get_input_text() -> str:
    return _state.input_text


def get_comments() -> List[Dict[str, Any]]:
    return [dict(c) for c in _state.comments]


def get_syntax_error() -> Optional[Dict[str, Any]]:
    return dict(_state.syntax_error) if _state.syntax_error is not None else None


def _export_constants() -> None:
    g = _grammar()
    txt = (_GDIR / "_cpp_parser" / "bindings.cpp").read_text()
    mod = sys.modules[__name__]
    for m in re.finditer(r'm\.attr\("(\w+)"\)\s*=\s*static_cast<int>\((\w+)::(\w+)\)', txt):
        name, scope, val = m.groups()
        if val.startswith("Rule") and scope == "Vtl":
            for n, i in g.rule_index.items():
                if _cap(n) == val[4:]:
                    setattr(mod, name, i)
                    break
        elif val == "EOF":
            setattr(mod, name, -1)
        elif val in g.lexer.type_of:
            setattr(mod, name, g.lexer.type_of[val])
    setattr(mod, "TOKEN_EOF", -1)


_export_constants()
