"""Install the pure-Python parser stand-in under the name of the missing native module and put
the repository's current working tree (VTL_REPO, default /repo) on sys.path."""
import importlib.util
import os
import sys

_here = os.path.dirname(os.path.abspath(__file__))
REPO = os.environ.get("VTL_REPO", "/repo")
_repo_src = os.path.join(REPO, "src")
if _repo_src not in sys.path:
    sys.path.insert(0, _repo_src)
_NAME = "vtlengine.AST.Grammar._cpp_parser.vtl_cpp_parser"
if _NAME not in sys.modules:
    spec = importlib.util.spec_from_file_location(_NAME, os.path.join(_here, "vtl_cpp_parser.py"))
    mod = importlib.util.module_from_spec(spec)
    sys.modules[_NAME] = mod
    spec.loader.exec_module(mod)
shim = sys.modules[_NAME]
