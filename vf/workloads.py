"""Generated workloads shared by the rider monitors (C10, ...): scripts + structures + data taken from the operator
generators, plus a few families aimed at structure conformance."""
import random


def _c03(rng):
    from vf import eng
    from vf.props import c03
    c = c03.make_case(rng)
    comps = [(n, t, "Identifier", False) for n, t in c["ids"]] + [(f"Me_{j + 1}", t, "Measure", True) for j, t in enumerate(c["mtypes"])]
    return c03.render(c), eng.structures(eng.mkds("DS_1", comps)), {"DS_1": (comps, c["rows"])}


def _c04(rng):
    from vf import eng
    from vf.props import c04
    c = c04.make_case(rng)
    dss, dps = [], {}
    for d in c["dss"]:
        comps = [(n, t, "Identifier", False) for n, t in d["ids"]] + [(n, t, "Measure", True) for n, t in d["meas"]]
        dss.append(eng.mkds(d["name"], comps))
        dps[d["name"]] = (comps, d["rows"])
    return c04.render(c), eng.structures(*dss), dps


def _c06(rng):
    from vf import eng
    from vf.props import c06
    c = c06.make_case(rng)
    comps = [(n, t, "Identifier", False) for n, t in c["ids"]] + [("Me_1", c["mt"], "Measure", True)]
    return c06.render(c), eng.structures(eng.mkds("DS_1", comps)), {"DS_1": (comps, c["rows"])}


def _c02(rng):
    from vf import eng
    from vf.props import c02
    c = c02.make_case(rng)
    ctuple = [(x[0], x[1], x[2], x[2] != "Identifier") for x in c["comps"]]
    dss = [eng.mkds("DS_1", ctuple)]
    dps = {"DS_1": (ctuple, c["rows"])}
    if c["source"] == "join":
        c2 = [("Id_1", "Integer", "Identifier", False), ("Id_2", "String", "Identifier", False), ("Me_9", c["t9"], "Measure", True)]
        dss.append(eng.mkds("DS_2", c2))
        dps["DS_2"] = (c2, c["rows2"])
    return c02.render(c), eng.structures(*dss), dps


def _joins(rng):
    from vf import eng
    from vf.props import c12
    c = c12.gen_join_case(rng)
    st = eng.structures(*[eng.mkds(f"IN_{i + 1}", c12.JCOMPS) for i in range(2)])
    dps = {f"IN_{i + 1}": (c12.JCOMPS, [[k, float(i * 10 + k), float(100 * (i + 1) + k)] for k in (1, 2, 3)]) for i in range(2)}
    return ";\n".join(c["stmts"]) + ";", st, dps


TP_SPELL = {"2020Q1": ["2020Q1", "2020-Q1"], "2020M1": ["2020M1", "2020M01", "2020-01", "2020-M01", "2020-M1"], "2020": ["2020", "2020A", "2020-A1"],
            "2020S2": ["2020S2", "2020-S2"], "2020W5": ["2020W5", "2020W05", "2020-W05"], "2020D45": ["2020D45", "2020D045", "2020-02-14"]}


def _tp_spellings(rng):
    """Time_Period identifiers and measures written in every documented spelling; sometimes the same period twice in one
    key group under two spellings (the input is then invalid: run() must reject it, never return duplicated identifiers)"""
    from vf import eng
    comps = [("Id_1", "Time_Period", "Identifier", False), ("Id_2", "String", "Identifier", False), ("Me_1", "Number", "Measure", True),
             ("Me_2", "Time_Period", "Measure", True)]
    rows = []
    periods = rng.sample(sorted(TP_SPELL), rng.randint(1, 4))
    for p in periods:
        for g in ("a", "b"):
            if rng.random() < 0.7:
                rows.append([rng.choice(TP_SPELL[p]), g, rng.choice([1.0, 2.5, None]), rng.choice(TP_SPELL[rng.choice(sorted(TP_SPELL))] + [None])])
    if rows and rng.random() < 0.4:
        r = rng.choice(rows)
        p = next(k for k, v in TP_SPELL.items() if r[0] in v)
        alt = [s for s in TP_SPELL[p] if s != r[0]]
        if alt:
            rows.append([rng.choice(alt), r[1], 9.0, None])
    script = rng.choice(["DS_r <- DS_1;", "DS_r <- DS_1[calc Me_3 := Me_1 * 2];", "DS_r <- DS_1[filter Me_1 > 0]; DS_s <- count(DS_1 group by Id_1);",
                         "DS_r <- sum(DS_1[keep Me_1] group by Id_1);", "DS_r <- timeshift(DS_1[keep Me_1], 1);"])
    return script, eng.structures(eng.mkds("DS_1", comps)), {"DS_1": (comps, rows)}


def _typemix(rng):
    """operators that choose between operands of different but compatible types (Integer / Number, in both orders) at component,
    dataset and scalar level: the declared result type must be able to hold every value that can come out"""
    from vf import eng
    comps = [("Id_1", "Integer", "Identifier", False), ("Me_i", "Integer", "Measure", True), ("Me_n", "Number", "Measure", True)]
    rows = [[k, rng.choice([None, 0, 1, 5, -3]), rng.choice([None, 0.5, 2.25, -1.75, 10.0])] for k in range(1, rng.randint(3, 7))]
    a, b = rng.choice([("Me_i", "Me_n"), ("Me_n", "Me_i"), ("Me_i", "2.25"), ("2.25", "Me_i"), ("Me_i", "Me_i"), ("7", "Me_n")])
    k = rng.choice([0, 1, 2])
    stmts = [f"DS_a <- DS_1[calc Me_r := if Me_i > {k} then {a} else {b}];", f"DS_b <- DS_1[calc Me_r := case when Me_i > {k} then {a} when Me_n < 1 then {b} else {a}];",
             f"DS_nvl_c <- DS_1[calc Me_r := nvl({a if not a[0].isdigit() else 'Me_i'}, {b})];", f"DS_nvl_d <- nvl(DS_1[keep Me_i], {rng.choice(['2.25', '3', '0.5'])});",
             f"DS_e <- if DS_1#Me_i > {k} then DS_1[keep Me_i] else DS_1[keep Me_n][rename Me_n to Me_i];", f"sc_a <- if {k} > 0 then 1 else 2.5; sc_b <- nvl(cast(null, integer), 2.5);",
             f"DS_f <- DS_1[calc Me_r := {a} + {b}, Me_s := {a} * {b}, Me_t := {a} - {b}];", f"DS_g <- DS_1[aggr Me_r := sum(Me_i), Me_s := avg(Me_i), Me_t := max(Me_n) group by Id_1];",
             f"DS_h <- union(DS_1[keep Me_i], DS_1[keep Me_n][rename Me_n to Me_i][calc identifier Id_1 := Id_1 + 100]);"]
    script = "\n".join(rng.sample(stmts, rng.randint(2, 4)))
    return script, eng.structures(eng.mkds("DS_1", comps)), {"DS_1": (comps, rows)}


def _viral_chain(rng):
    """clause chains that create, overwrite, keep, drop and rename viral attributes and attributes (a propagation rule is declared):
    what the result's structure lists must be in the returned data"""
    from vf import eng
    comps = [("Id_1", "Integer", "Identifier", False), ("Id_2", "String", "Identifier", False), ("Me_1", "Number", "Measure", True), ("Me_2", "Number", "Measure", True),
             ("At_1", "String", "Attribute", True), ("VAt_1", "String", "Viral Attribute", True)]
    rows = [[i, s, rng.choice([1.5, 2.0, None, -3.0]), rng.choice([0.5, 7.0, None]), rng.choice(["x", "y", None]), rng.choice(["A", "B", None])] for i in (1, 2, 3) for s in ("a", "b") if rng.random() < 0.85]
    rule = 'define viral propagation R1 (variable VAt_1) is when "A" then "A"; when "B" then "B"; else "Z" end viral propagation; ' \
           'define viral propagation R2 (variable VAt_2) is when "A" and "B" then "C"; when "A" then "A"; else "N" end viral propagation;'
    steps = ['[calc viral attribute VAt_2 := "A"]', '[calc viral attribute VAt_2 := At_1]', '[calc attribute At_2 := Me_1 > 1]', "[keep Me_1]", "[keep Me_2, Me_1]", "[drop Me_2]",
             "[rename Me_1 to Me_9]", "[filter Me_1 > 0]", "[calc Me_3 := Me_1 + Me_2]", '[calc viral attribute VAt_1 := "B"]', "[drop At_1]", "[keep Me_1, At_1]", '[calc identifier Id_3 := Id_1 + 10]',
             "[sub Id_2 = \"a\"]"]
    stmts = []
    for j in range(rng.randint(1, 3)):
        chain = "".join(rng.sample(steps, rng.randint(2, 4)))
        src = rng.choice(["DS_1", "DS_1", "(DS_1 * 2)", "abs(DS_1)", "inner_join(DS_1 as a, DS_1[rename Me_1 to Me_7, Me_2 to Me_8][drop At_1] as b)"])
        stmts.append(f"DS_v{j} <- {src}{chain};")
    return rule + "\n" + "\n".join(stmts), eng.structures(eng.mkds("DS_1", comps)), {"DS_1": (comps, rows)}


def _validation(rng):
    """check / check_datapoint / check_hierarchy whose operands do not line up (filtered imbalance operand, non-nullable measures)"""
    from vf import eng
    c1 = [("Id_1", "Integer", "Identifier", False), ("Id_2", "String", "Identifier", False), ("Me_1", "Number", "Measure", True)]
    c2 = [("Id_1", "Integer", "Identifier", False), ("Id_2", "String", "Identifier", False), ("Me_1", "Number", "Measure", False)]
    r1 = [[i, s, rng.choice([1.0, -2.0, 5.5, None, 0.0])] for i in (1, 2, 3, 4) for s in ("A", "B", "C") if rng.random() < 0.9]
    r2 = [[i, s, rng.choice([1.0, 3.0, -1.0, 10.0])] for i in (1, 2, 3, 4) for s in ("A", "B", "C") if rng.random() < 0.7]
    k = rng.choice([0, 1, 2])
    stmts = [f"V1 <- check(DS_1 > {k} errorcode \"e\" errorlevel 1 imbalance DS_2[filter Id_1 > {k}]);", f"V2 <- check(DS_1 >= DS_2 imbalance DS_1 - DS_2 invalid);",
             f"V3 <- check(DS_1 > {k} imbalance DS_2 all);", f"V4 <- check(DS_2 > {k} imbalance DS_1[filter Me_1 > 0]);",
             "define datapoint ruleset dpr (variable Me_1) is r1: Me_1 > 0 errorcode \"neg\" errorlevel 2; r2: when Me_1 > 1 then Me_1 < 5 end datapoint ruleset; V5 <- check_datapoint(DS_2, dpr all); V6 <- check_datapoint(DS_1, dpr all_measures);",
             "define hierarchical ruleset hr (variable rule Id_2) is A = B + C errorcode \"h\"; B >= C end hierarchical ruleset; V7 <- check_hierarchy(DS_2, hr rule Id_2 partial_null all); V8 <- hierarchy(DS_2, hr rule Id_2 always_zero all);",
             "V9 <- exists_in(DS_1, DS_2[filter Id_1 > 1], all); V10 <- lag(DS_2, 1 over (partition by Id_2 order by Id_1)); V11 <- DS_2[aggr Me_9 := sum(Me_1)];"]
    return "\n".join(rng.sample(stmts, rng.randint(2, 4))), eng.structures(eng.mkds("DS_1", c1), eng.mkds("DS_2", c2)), {"DS_1": (c1, r1), "DS_2": (c2, r2)}


FAMILIES = [("aggregation", _c03), ("join", _c04), ("analytic", _c06), ("clauses", _c02), ("multi-join-script", _joins), ("tp-spellings", _tp_spellings),
            ("type-mix", _typemix), ("viral-chain", _viral_chain), ("validation", _validation)]


def generated(rng, n):
    from vf import eng
    for i in range(n):
        fam, fn = FAMILIES[i % len(FAMILIES)]
        seed = rng.randrange(1 << 30)
        yield build(fam, seed)


def build(fam, seed):
    from vf import eng
    fn = dict(FAMILIES)[fam]
    script, st, dps = fn(random.Random(seed))

    def datapoints():
        return {k: eng.mkdf([c[0] for c in comps], [tuple(r) for r in rows]) for k, (comps, rows) in dps.items()}
    return {"script": script, "structures": st, "datapoints": datapoints, "family": fam, "replay": {"gen": [fam, seed]}}


def replay_c10(case, emit, check_result):
    from vf import eng
    fam, seed = case["gen"]
    w = build(fam, seed)
    status, res = eng.call(eng.run, w["script"], w["structures"], w["datapoints"](), return_only_persistent=False)
    if status == "exc":
        emit({"v": "skip", "why": "generated case rejected: " + type(res).__name__})
        return
    s2, pred = eng.call(eng.semantic_analysis, w["script"], w["structures"])
    if s2 == "exc":
        emit({"v": "viol", "b": f"gen/{fam}", "mech": "semantic-analysis-rejects-what-run-accepts", "what": w["script"], "case": case})
        return
    check_result(res, pred, f"gen:{fam}", emit, case, rop=False)
