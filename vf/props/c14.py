"""C14 — writing results to an output folder preserves them exactly.
Each case runs twice in the same worker: in memory, and with output_folder; an independent reader (DuckDB
read_csv with all_varchar / read_parquet, driven by the harness) loads the files back."""
import os
import random

ID = "C14"
LEVEL = "exploration"
RULE = ("corpus scripts with their data plus generated multi-type datasets (every basic type, nulls, empty strings, quotes, "
        "commas, unicode, scalars); formats csv and parquet; both return_only_persistent settings. Oracle: the set of files is "
        "{name}.{ext} per returned dataset plus _scalars.csv iff scalars are returned; every file read back by an independent "
        "reader has the columns of the in-memory result in the same order and the same rows as a multiset (values compared "
        "after canonical text rendering; numbers numerically; empty string vs null distinguished in parquet and in csv via "
        "quoting); _scalars.csv holds exactly the returned scalar names and values; returned datasets carry no data. "
        "Bucket = (source, format, return_only_persistent, type set, scalars present); zero-row datasets are trivial.")
ASSUMPTIONS = ["the in-memory run of the same call is the reference for the file content (its own correctness is C01-C10's subject)"]
FLOORS = {"quick": (100, 15), "thorough": (3000, 40)}
NSH = 16


def shards(tier, seed):
    return [{"shard": i, "nshards": NSH} for i in range(NSH)]


def canon_cell(v):
    from vf.eng import norm
    v = norm(v)
    if v is None:
        return None
    if isinstance(v, bool):
        return "true" if v else "false"
    if isinstance(v, (int, float)):
        f = float(v)
        return ("num", f)
    return str(v)


def cells_equal(a, b):
    if a is None or b is None:
        return a is None and b is None
    if isinstance(a, tuple) and isinstance(b, tuple):
        return abs(a[1] - b[1]) <= 1e-9 * max(1.0, abs(a[1]), abs(b[1]))
    if isinstance(a, tuple) or isinstance(b, tuple):
        num, txt = (a, b) if isinstance(a, tuple) else (b, a)
        try:
            return abs(float(txt) - num[1]) <= 1e-9 * max(1.0, abs(num[1]))
        except (TypeError, ValueError):
            return False
    if a == b:
        return True
    return a.lower() == b.lower() and a.lower() in ("true", "false")


def read_back(path, fmt):
    import duckdb
    con = duckdb.connect(":memory:")
    try:
        if fmt == "csv":
            rel = con.sql(f"SELECT * FROM read_csv('{path}', all_varchar=true, header=true, auto_detect=true, "
                          f"delim=',', quote='\"', escape='\"', nullstr='', allow_quoted_nulls=false, strict_mode=true)")
        else:
            rel = con.sql(f"SELECT * FROM read_parquet('{path}')")
        cols = [d[0] for d in rel.description]
        rows = rel.fetchall()
    finally:
        con.close()
    return cols, rows


def compare_one(case_label, kw, fmt, rop, emit, source, replay_case):
    import shutil
    from vf import eng
    from vtlengine.Model import Dataset, Scalar
    out = os.path.join(eng.SCRATCH, "c14out")
    shutil.rmtree(out, ignore_errors=True)
    s1, mem = eng.call(eng.run, return_only_persistent=rop, **kw)
    if s1 == "exc":
        emit({"v": "skip", "why": "in-memory run rejected: " + type(mem).__name__})
        return
    s2, filed = eng.call(eng.run, return_only_persistent=rop, output_folder=out, output_format=fmt, **kw)
    if s2 == "exc":
        emit({"v": "viol", "b": f"{source}/{fmt}/raises", "mech": f"output-folder-run-raises/{type(filed).__name__}",
              "what": f"{case_label}: run with output_folder raised {type(filed).__name__}: {str(filed)[:200]} while the in-memory run succeeds",
              "case": replay_case})
        return
    problems = []
    if set(filed) != set(mem):
        problems.append(("returned-names", f"with folder {sorted(filed)} vs in memory {sorted(mem)}"))
    dsn = sorted(k for k, v in mem.items() if isinstance(v, Dataset))
    scn = sorted(k for k, v in mem.items() if isinstance(v, Scalar))
    want_files = {f"{n}.{fmt}" for n in dsn} | ({"_scalars.csv"} if scn else set())
    have = set(os.listdir(out)) if os.path.isdir(out) else set()
    if have != want_files:
        problems.append(("file-set", f"files {sorted(have)} vs expected {sorted(want_files)}"))
    types = set()
    nonempty = False
    for n in dsn:
        if n in filed and isinstance(filed[n], Dataset) and filed[n].data is not None:
            problems.append(("returned-dataset-carries-data", n))
        p = os.path.join(out, f"{n}.{fmt}")
        if not os.path.exists(p):
            continue
        df = mem[n].data
        types |= {c.data_type.__name__ for c in mem[n].components.values()}
        try:
            cols, rows = read_back(p, fmt)
        except Exception as e:  # noqa: BLE001
            problems.append(("file-unreadable", f"{n}.{fmt}: {type(e).__name__}: {str(e)[:120]}"))
            continue
        if cols != list(df.columns):
            problems.append(("file-columns", f"{n}: file columns {cols} vs in-memory {list(df.columns)}"))
            continue
        mrows = [tuple(canon_cell(v) for v in r) for r in eng.rows_of(df)]
        frows = [tuple(canon_cell(v) for v in r) for r in rows]
        nonempty = nonempty or bool(mrows)
        if len(mrows) != len(frows):
            problems.append(("file-row-count", f"{n}: {len(frows)} rows in file vs {len(mrows)} in memory"))
            continue
        nk = sum(1 for c in mem[n].components.values() if c.role.value == "Identifier")
        idx = [i for i, c in enumerate(mem[n].components.values()) if c.role.value == "Identifier"]

        def keyf(r):
            return tuple(repr(r[i]) for i in idx) if idx else tuple(repr(c) for c in r)
        ms, fs = sorted(mrows, key=keyf), sorted(frows, key=keyf)
        for a, b in zip(ms, fs):
            if not all(cells_equal(x, y) for x, y in zip(a, b)):
                problems.append(("file-values", f"{n}: file row {b} vs in-memory row {a}"))
                break
    if scn and "_scalars.csv" in have:
        cols, rows = read_back(os.path.join(out, "_scalars.csv"), "csv")
        got = {r[0]: r[1] for r in rows} if len(cols) >= 2 else {}
        for n in scn:
            if n not in got:
                problems.append(("scalar-missing-in-file", n))
            elif not cells_equal(canon_cell(mem[n].value), canon_cell(got[n]) if got[n] is None else got[n]):
                kind_ = "scalar-empty-string-written-as-null" if mem[n].value == "" and got[n] is None else "scalar-value"
                problems.append((kind_, f"{n}: file {got[n]!r} vs returned {mem[n].value!r}"))
        if set(got) - set(scn):
            problems.append(("scalar-extra-in-file", str(sorted(set(got) - set(scn)))))
    bucket = f"{source}/{fmt}/rop={rop}/{'+'.join(sorted(types))}/scalars={bool(scn)}" if nonempty or scn else "trivial-empty"
    if problems:
        emit({"v": "viol", "b": bucket, "mech": f"{fmt}/" + "+".join(sorted({p[0] for p in problems}))[:80],
              "what": f"{case_label}: {problems[:3]}", "case": replay_case})
    else:
        emit({"v": "held", "b": bucket, "sample": {"case": case_label, "format": fmt, "files": sorted(have), "rop": rop}})
    shutil.rmtree(out, ignore_errors=True)


GEN_COMPS = [("Id_1", "Integer", "Identifier", False), ("Id_2", "String", "Identifier", False),
             ("Me_1", "Number", "Measure", True), ("Me_2", "Integer", "Measure", True), ("Me_3", "String", "Measure", True),
             ("Me_4", "Boolean", "Measure", True), ("Me_5", "Date", "Measure", True), ("Me_6", "Time_Period", "Measure", True),
             ("Me_7", "Time", "Measure", True), ("Me_8", "Duration", "Measure", True), ("Me_9", "Time_Period", "Measure", True)]
STR_POOL = ["", "a", 'say "hi"', "comma,inside", "line\nbreak", " lead", "trail ", "ñandú", "日本語", "null", "NA", "'q'", "semi;colon", "tab\there", "x" * 300]


def gen_case(rng):
    from vf import gen
    n = rng.randint(0, 8)
    rows = []
    for i in range(n):
        rows.append((i + 1, rng.choice(["a", "b", "c,d", 'e"f', "g h"]) + str(i),
                     gen.rvalue(rng, "Number", 0.2), gen.rvalue(rng, "Integer", 0.2),
                     None if rng.random() < 0.2 else rng.choice(STR_POOL), gen.rvalue(rng, "Boolean", 0.2),
                     gen.rvalue(rng, "Date", 0.2, gen.POOLS["Date"] + ["2020-01-15 10:30:00"]), gen.rvalue(rng, "Time_Period", 0.2),
                     gen.rvalue(rng, "Time", 0.2), gen.rvalue(rng, "Duration", 0.2), gen.rvalue(rng, "Time_Period", 0.4)))
    script = rng.choice([
        "DS_r <- DS_1;", "DS_r <- DS_1; sc_r <- 1.5 + 2; sc_s <- \"te,xt\";", "DS_a := DS_1[keep Me_1, Me_3]; DS_r <- DS_a; DS_b <- DS_1[filter Me_4];",
        "DS_r <- DS_1[calc Me_10 := Me_3 || \"x\"]; sc_n <- cast(null, integer); sc_b <- true; sc_d <- cast(\"2020-01-01\", date);",
        "DS_r <- DS_1[sub Id_2 = \"a0\"]; DS_c <- count(DS_1 group by Id_1);", "sc_only <- 3 * 4;",
        "DS_r <- DS_1[keep Me_6, Me_9]; sc_zero <- 1 - 1; sc_false <- 1 > 2; sc_z2 <- 0.0 * 3; sc_empty <- \"\" || \"\"; sc_one <- 1;",
        "sc_zero <- 0; sc_false <- false; sc_true <- true; sc_neg <- 0 - 5;"])
    return {"rows": [list(r) for r in rows], "script": script, "fmt": rng.choice(["csv", "parquet"]), "rop": rng.random() < 0.5,
            "tp": rng.choice(["vtl", "sdmx_reporting", "natural"])}


def run_gen(case, emit):
    from vf import eng
    kw = {"script": case["script"], "data_structures": eng.structures(eng.mkds("DS_1", GEN_COMPS)),
          "datapoints": {"DS_1": eng.mkdf([c[0] for c in GEN_COMPS], [tuple(r) for r in case["rows"]])},
          "time_period_output_format": case["tp"]}
    compare_one(case["script"][:60], kw, case["fmt"], case["rop"], emit, "gen", {"gen": case})


def run_corpus(c, fmt, rop, emit):
    from vf import corpus
    try:
        kw = corpus.run_kwargs(c)
    except Exception as e:  # noqa: BLE001
        emit({"v": "skip", "why": f"corpus load {type(e).__name__}"})
        return
    compare_one(c["id"], kw, fmt, rop, emit, f"corpus:{c['area'].split('/')[0]}", {"corpus": c, "fmt": fmt, "rop": rop})


def run_shard(spec, emit):
    from vf import eng, rider
    rng = random.Random(f"C14-{spec['seed']}-{spec['shard']}")
    bud = eng.Budget(spec.get("budget_s", 100 if spec["tier"] == "quick" else 2400))
    for _ in range(8 if spec["tier"] == "quick" else 120):
        if not bud.ok():
            break
        run_gen(gen_case(rng), emit)
    for c in rider.corpus_slice(spec, quick_fraction=8, tag="C14"):
        if not bud.ok():
            emit({"v": "inc", "why": "cut by wall-clock budget"})
            break
        run_corpus(c, rng.choice(["csv", "parquet"]), rng.random() < 0.4, emit)


def replay(case, emit):
    if "corpus" in case:
        run_corpus(case["corpus"], case["fmt"], case["rop"], emit)
    else:
        run_gen(case["gen"], emit)
