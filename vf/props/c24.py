"""C24 — prettify preserves meaning and is idempotent."""
import random

ID = "C24"
LEVEL = "exploration"
RULE = ("every parseable corpus script plus generated scripts aimed at the renderer (numeric literals of every magnitude and "
        "precision, negative literals, null/boolean/string literals in every operand position, reserved words as quoted names, "
        "block and line comments before/after/inside statements). Oracle per script s: p = prettify(s) parses; AST(p) equals "
        "AST(s) structurally (own comparer over the AST dataclass fields, positions ignored); the multiset of comment texts "
        "(lexed by the harness) is preserved; prettify(p) == p; for scripts with data run(p) == run(s). Bucket = (source, "
        "construct classes present: literal class / comments / defines / clauses); one evaluation = one script.")
ASSUMPTIONS = ["comment texts are compared after stripping surrounding whitespace"]
FLOORS = {"quick": (300, 15), "thorough": (2500, 25)}
REQUIRED_COUNTERS = {"run_equivalence_pairs": 20}
NSH = 16

POS = {"line_start", "line_stop", "column_start", "column_stop", "isLast", "_hr_sorted"}   # positions and parse-context flags


def shards(tier, seed):
    return [{"shard": i, "nshards": NSH} for i in range(NSH)]


def shape(node):
    import dataclasses
    import enum
    if dataclasses.is_dataclass(node) and not isinstance(node, type):
        vals = {f.name: getattr(node, f.name) for f in dataclasses.fields(node) if f.name not in POS}
        if type(node).__name__ == "HROperation":
            # an omitted mode and the documented default written out are the same statement
            chk = vals.get("op") == "check_hierarchy"
            for fld, dflt in (("validation_mode", "non_null"), ("input_mode", "dataset" if chk else "rule"), ("output", "invalid" if chk else "computed")):
                if vals.get(fld) is None:
                    vals[fld] = ("enum", dflt)
        if type(node).__name__ == "DPValidation" and vals.get("output") is None:
            vals["output"] = ("enum", "invalid")
        return (type(node).__name__, tuple((k, shape(v)) for k, v in vals.items()))
    if isinstance(node, (list, tuple)):
        return tuple(shape(x) for x in node)
    if isinstance(node, dict):
        return tuple(sorted((repr(k), shape(v)) for k, v in node.items()))
    if isinstance(node, enum.Enum):
        return ("enum", node.value)
    if isinstance(node, tuple) and len(node) == 2 and node[0] == "enum":
        return node
    if isinstance(node, float):
        return ("num", float(node))
    if isinstance(node, int) and not isinstance(node, bool):
        return ("num", float(node)) if False else ("int", node)
    if node is None or isinstance(node, (str, bool)):
        return node
    if isinstance(node, type):
        return ("class", node.__name__)
    if hasattr(node, "__dict__"):
        return ("obj", type(node).__name__, tuple(sorted((k, shape(v)) for k, v in vars(node).items() if k not in POS and k != "data")))
    return ("obj", type(node).__name__)


def shape_unordered_rules(ast):
    """shape of a script in which the rules of every hierarchical ruleset are taken as a multiset"""
    import copy
    a = copy.deepcopy(ast)
    for ch in a.children:
        if type(ch).__name__ == "HRuleset":
            ch.rules = sorted(ch.rules, key=lambda r: repr(shape(r)))
    return shape(a)


def first_diff(a, b, path="ast"):
    if a == b:
        return None
    if isinstance(a, tuple) and isinstance(b, tuple) and len(a) == len(b):
        for i, (x, y) in enumerate(zip(a, b)):
            d = first_diff(x, y, f"{path}.{a[0] if i and isinstance(a[0], str) else ''}[{i}]")
            if d:
                return d
    return f"{path}: {str(a)[:120]} vs {str(b)[:120]}"


def comments_of(text):
    import vboot
    sh = vboot.shim
    g = sh._grammar()
    toks, errs = g.lexer.tokenize(text)
    ml, sl = g.lexer.type_of["ML_COMMENT"], g.lexer.type_of["SL_COMMENT"]
    return sorted(t.text.strip() for t in toks if t.type in (ml, sl))


def classes_of(script):
    import re
    cl = []
    if "/*" in script or "//" in script:
        cl.append("comments")
    if re.search(r"\d\.\d", script):
        cl.append("decimals")
    if "null" in script:
        cl.append("null")
    if "define " in script:
        cl.append("defines")
    if "[" in script:
        cl.append("clauses")
    if "'" in script:
        cl.append("quoted-names")
    if "join" in script:
        cl.append("join")
    return "+".join(cl) or "plain"


def check_script(script, source, emit, case, run_kw=None):
    from vf import eng
    from vtlengine.API import create_ast, prettify
    s0, a0 = eng.call(create_ast, script)
    if s0 == "exc":
        emit({"v": "skip", "why": "script does not parse"})
        return
    bucket = f"{source}/{classes_of(script)}"
    s1, p = eng.call(prettify, script)
    if s1 == "exc":
        emit({"v": "viol", "b": bucket, "mech": f"prettify-raises/{type(p).__name__}/{eng.raise_site(p)}",
              "what": f"prettify raised {type(p).__name__}: {str(p)[:160]} on {script[:200]!r}", "case": case})
        return
    problems = []
    s2, a1 = eng.call(create_ast, p)
    if s2 == "exc":
        problems.append(("output-does-not-parse", f"{type(a1).__name__}: {str(a1)[:160]}"))
    else:
        d = first_diff(shape(a0), shape(a1))
        if d:
            kind = "ast-differs"
            if "HRuleset" in d and "rules" in d and shape_unordered_rules(a0) == shape_unordered_rules(a1):
                kind = "hruleset-rule-order-not-stable"
            problems.append((kind, d))
    c0, c1 = comments_of(script), comments_of(p)
    if c0 != c1:
        missing = [c for c in c0 if c not in c1]
        problems.append(("comments-not-preserved", f"{len(c0)} comments in, {len(c1)} out; missing {missing[:2]}"))
    s3, p2 = eng.call(prettify, p)
    if s3 == "exc":
        problems.append(("second-prettify-raises", type(p2).__name__))
    elif p2 != p:
        problems.append(("not-idempotent", _textdiff(p, p2)))
    if run_kw is not None and not problems:
        sa, ra = eng.call(eng.run, script=script, **run_kw)
        if sa == "ok":
            sb, rb = eng.call(eng.run, script=p, **run_kw)
            emit({"v": "ctr", "ctr": {"run_equivalence_pairs": 1}})
            if sb == "exc":
                problems.append(("prettified-script-fails-to-run", f"{type(rb).__name__}: {str(rb)[:120]}"))
            else:
                d = eng.digests_equal(eng.result_digest(rb), eng.result_digest(ra))
                if d:
                    problems.append(("run-results-differ", d))
    if problems:
        emit({"v": "viol", "b": bucket, "mech": "prettify/" + refine(problems[0], script), "what": f"{script[:240]!r} -> {p[:240]!r}: {problems[:2]}", "case": case})
    else:
        emit({"v": "held", "b": bucket, "sample": {"source": source, "script": script[:160], "prettified": p[:160]}})


def refine(problem, script):
    """mechanism key = symptom + the construct it sits in (so that one known rendering defect does not hide another)"""
    import re
    kind, detail = problem
    if kind == "ast-differs":
        classes = re.findall(r"\.([A-Z][A-Za-z]+)\[", detail)
        return f"ast-differs/{classes[0] if classes else 'Start'}/{classes[-1] if classes else ''}"
    if kind == "output-does-not-parse":
        m = re.search(r"(?:mismatched|extraneous) input '([^']*)'|no viable alternative at input '([^']*)'|token recognition error at: '([^']*)'", detail)
        tok = next((g for g in (m.groups() if m else ()) if g), "?")
        return f"output-does-not-parse/at:{tok[:20]}"
    if kind in ("run-results-differ", "prettified-script-fails-to-run", "not-idempotent"):
        constructs = [k for k, pat in (("hruleset-code-item-condition", r"hierarchical ruleset[\s\S]*\[[^\]]*(>=|<=|=|>|<)"), ("hruleset", r"hierarchical ruleset"),
                                       ("dpruleset", r"datapoint ruleset"), ("operator", r"define operator"), ("viral", r"viral propagation"),
                                       ("join", r"_join"), ("analytic", r"\bover\s*\("), ("aggr", r"\baggr\b|group by|group except")) if re.search(pat, script)]
        return f"{kind}/{constructs[0] if constructs else 'plain'}"
    return kind


def _textdiff(a, b):
    for i, (x, y) in enumerate(zip(a, b)):
        if x != y:
            return f"first difference at char {i}: {a[max(0, i - 30):i + 30]!r} vs {b[max(0, i - 30):i + 30]!r}"
    return f"lengths {len(a)} vs {len(b)}"


NUMS = ["0", "1", "42", "0.0", "1.0", "0.5", "3.14", "10.25", "100.001", "0.1", "0.01", "0.001", "0.0001", "0.00001", "0.000001",
        "0.0000001", "0.00000001", "0.00001234", "123456789.123456789", "1000000.0", "99999999999.5", "0.30000000000000004",
        "1.10", "2.50", "12345678901234567890.0", "0.000000000001", "7.0000001"]
STRS = ['""', '"a"', '"hello world"', '"ñ"', '"it\'s"', '"1.0"', '"null"', '" "', '"a,b;c"', '"/* not a comment */"', '"// no"']
LITS = NUMS + STRS + ["null", "true", "false"]
COMMENTS = ["/* block */", "/* multi\n line */", "// line comment\n", "/**/", "/* unicode ñ 日本 */", "// trailing ; := <- \n", "/* a */ /* b */"]
TEMPLATES = [
    "DS_r <- DS_1 * {n};", "DS_r <- DS_1 + {n} - {n2};", "DS_r <- DS_1[calc Me_2 := {l}, Me_3 := Me_1 + {n}];",
    "DS_r <- DS_1[filter Me_1 > {n} and Me_1 <> {n2}];", "sc_r <- {n};", "sc_r <- -{n};", "sc_r <- {n} + {n2} * ({n} - {n2});",
    "DS_r <- DS_1[calc Me_2 := nvl(Me_1, {n})];", "DS_r <- DS_1[calc Me_2 := if Me_1 > {n} then {l} else null];",
    "DS_r <- DS_1[calc Me_2 := isnull({l})];", "DS_r <- DS_1[calc Me_2 := between(Me_1, {n}, {n2})];",
    "DS_r <- DS_1[calc Me_2 := Me_1 in {{{n}, {n2}}}];", "sc_r <- round({n}, 3);", "sc_r <- power({n}, 2) / {n2};",
    "DS_r <- DS_1[calc Me_2 := case when Me_1 > {n} then {s} when Me_1 = null then {s2} else {s}];",
    "DS_r <- DS_1[calc Me_2 := {s} || {s2}];", "sc_r <- cast({s}, string);", "DS_r <- DS_1[sub Id_2 = {s}];",
    "DS_r <- DS_1[rename Me_1 to 'filter', Id_2 to 'group'];", "DS_r <- DS_1[calc 'calc' := Me_1 * {n}];",
    "DS_r <- inner_join(DS_1 as 'a', DS_2 as b using Id_1 keep 'a'#Me_1);", "DS_r <- DS_1#Me_1 + {n};",
    "DS_r <- sum(DS_1 group by Id_1 having avg(Me_1) > {n});", "DS_r <- DS_1[aggr Me_2 := sum(Me_1) group by Id_1];",
    "define operator f (x number default {n}) returns number is x * {n2} end operator; sc_r <- f({n});",
    "define datapoint ruleset dpr (variable Me_1) is r1: when Me_1 > {n} then Me_1 < {n2} errorcode {s} errorlevel {n} end datapoint ruleset; DS_r <- check_datapoint(DS_1, dpr);",
    "define hierarchical ruleset hr (variable rule Id_2) is A = B + C errorcode {s} errorlevel 1; D >= A - B end hierarchical ruleset; DS_r <- check_hierarchy(DS_1, hr rule Id_2 non_zero dataset_priority all);",
    "define hierarchical ruleset hr (variable rule Id_2) is A = B + C end hierarchical ruleset; DS_r <- hierarchy(DS_1, hr rule Id_2 partial_null rule_priority all);",
    "define hierarchical ruleset hr (variable rule Id_2) is A = B + C end hierarchical ruleset; DS_r <- check_hierarchy(DS_1, hr rule Id_2 non_null dataset invalid);",
    "define hierarchical ruleset hr (variable rule Id_2) is A = B + C end hierarchical ruleset; DS_r <- hierarchy(DS_1, hr rule Id_2 always_zero);",
    "define hierarchical ruleset hr (variable rule Id_2) is A = B + C end hierarchical ruleset; DS_r <- check_hierarchy(DS_1, hr rule Id_2 all_measures);",
    "define datapoint ruleset dpr (variable Me_1) is Me_1 > {n} end datapoint ruleset; DS_r <- check_datapoint(DS_1, dpr all_measures);",
    "DS_r <- DS_1[calc Me_2 := Me_1 > {n} or not (Me_1 <= {n2}) xor true];", "DS_r <- DS_1[calc Me_2 := abs(-{n}) + ceil({n2}) + floor(-{n2})];",
    "DS_r <- check(DS_1 > {n} errorcode {s} errorlevel 2 imbalance DS_1 - {n2} invalid);",
    # falsy / unusual error codes and levels
    "define hierarchical ruleset hr (variable rule Id_2) is A = B + C errorcode {e} errorlevel {e2}; D >= A - B errorlevel {e} end hierarchical ruleset; DS_r <- check_hierarchy(DS_1, hr rule Id_2 all);",
    "define datapoint ruleset dpr (variable Me_1) is r1: Me_1 > {n} errorcode {e} errorlevel {e2}; r2: Me_1 < {n2} errorlevel {e} end datapoint ruleset; DS_r <- check_datapoint(DS_1, dpr all);",
    "DS_r <- check(DS_1 > {n} errorcode {e} errorlevel {e2});", "DS_r <- check(DS_1 > {n} errorlevel {e} imbalance DS_1 - {n2} all);",
    # analytic windows: every bound form, numeric and scalar-variable offsets
    "sc_n := 1; DS_r <- sum(DS_1 over (partition by Id_1 order by Id_2 data points between {wa} and {wb}));",
    "sc_n := 2; DS_r <- DS_1[calc Me_2 := avg(Me_1 over (order by Id_1, Id_2 data points between {wa} and {wb}))];",
    "DS_r <- max(DS_1 over (partition by Id_1 order by Id_2 desc range between {ra} and {rb}));",
    "DS_r <- DS_1[calc Me_2 := lag(Me_1, {k}, {n} over (partition by Id_1 order by Id_2)), Me_3 := rank(over (partition by Id_1 order by Me_1 desc))];",
    "DS_r <- first_value(DS_1 over (partition by Id_1 order by Id_2 asc));", "DS_r <- ratio_to_report(DS_1 over (partition by Id_1));",
]
ERRS = ["0", "0.0", "1", "5", '""', '"E"', '"0"', "-1"]
WLO = ["unbounded preceding", "2 preceding", "1 preceding", "sc_n preceding", "current data point", "1 following", "sc_n following"]
WHI = ["2 preceding", "sc_n preceding", "current data point", "1 following", "3 following", "sc_n following", "unbounded following"]
RLO = ["unbounded preceding", "2 preceding", "current data point", "1 following"]
RHI = ["1 preceding", "current data point", "2 following", "unbounded following"]


def gen_script(rng):
    parts = []
    for _ in range(rng.randint(1, 3)):
        t = rng.choice(TEMPLATES)
        wa = rng.randrange(len(WLO))
        wb = rng.choice([j for j in range(len(WHI)) if j >= max(0, wa - 1)])   # never an upper bound before the lower one
        ra = rng.randrange(len(RLO))
        s = t.format(n=rng.choice(NUMS), n2=rng.choice(NUMS), l=rng.choice(LITS), s=rng.choice(STRS), s2=rng.choice(STRS),
                     e=rng.choice(ERRS), e2=rng.choice(ERRS), wa=WLO[wa], wb=WHI[wb], ra=RLO[ra], rb=rng.choice(RHI[ra:]), k=rng.choice([1, 2]))
        if rng.random() < 0.5:
            c = rng.choice(COMMENTS)
            where = rng.random()
            if where < 0.4:
                s = c + " " + s
            elif where < 0.7:
                s = s + " " + c
            else:
                # inside the statement, after the assignment arrow
                for arrow in (" <- ", " := "):
                    if arrow in s:
                        s = s.replace(arrow, f"{arrow}{c if not c.startswith('//') else '/* in */'} ", 1)
                        break
        parts.append(s)
    # unique result names
    out = []
    for i, s in enumerate(parts):
        out.append(s.replace("DS_r <-", f"DS_r{i} <-").replace("sc_r <-", f"sc_r{i} <-").replace("operator f ", f"operator f{i} ").replace(" f(", f" f{i}(")
                   .replace("ruleset dpr ", f"ruleset dpr{i} ").replace(", dpr)", f", dpr{i})").replace(", dpr ", f", dpr{i} ")
                   .replace("ruleset hr ", f"ruleset hr{i} ").replace(", hr ", f", hr{i} ").replace("sc_n", f"sc_n{i}"))
    return "\n".join(out)


def run_shard(spec, emit):
    from vf import corpus, eng, rider
    tier = spec["tier"]
    rng = random.Random(f"C24-{spec['seed']}-{spec['shard']}")
    bud = eng.Budget(spec.get("budget_s", 100 if tier == "quick" else 2400))
    comps = [("Id_1", "Integer", "Identifier", False), ("Id_2", "String", "Identifier", False), ("Me_1", "Number", "Measure", True)]
    st = eng.structures(eng.mkds("DS_1", comps), eng.mkds("DS_2", comps))
    rows = [(1, "a", 1.5), (2, "b", None), (3, "a", -2.0), (4, "c", 0.00001234)]
    for i in range(25 if tier == "quick" else 500):
        if not bud.ok():
            break
        script = gen_script(rng)
        run_kw = None
        if i % 3 == 0:
            run_kw = {"data_structures": st, "datapoints": {"DS_1": eng.mkdf([c[0] for c in comps], rows), "DS_2": eng.mkdf([c[0] for c in comps], rows[:2])},
                      "return_only_persistent": False}
        check_script(script, "gen", emit, {"script": script, "with_data": run_kw is not None}, run_kw)
    for j, c in enumerate(rider.corpus_slice(spec, quick_fraction=3, big=True, tag="C24")):
        if not bud.ok():
            emit({"v": "inc", "why": "cut by wall-clock budget"})
            break
        try:
            kw = corpus.run_kwargs(c)
        except Exception:  # noqa: BLE001
            continue
        run_kw = None
        if j % (6 if tier == "quick" else 2) == 0 and not c["area"].startswith("BigProjects"):
            run_kw = {k: v for k, v in kw.items() if k != "script"}
            run_kw["return_only_persistent"] = False
        check_script(kw["script"], f"corpus:{c['area'].split('/')[0]}", emit, {"corpus": c}, run_kw)


def replay(case, emit):
    from vf import corpus, eng
    if "corpus" in case:
        kw = corpus.run_kwargs(case["corpus"])
        run_kw = {k: v for k, v in kw.items() if k != "script"}
        run_kw["return_only_persistent"] = False
        check_script(kw["script"], "corpus", emit, case, run_kw)
    else:
        comps = [("Id_1", "Integer", "Identifier", False), ("Id_2", "String", "Identifier", False), ("Me_1", "Number", "Measure", True)]
        st = eng.structures(eng.mkds("DS_1", comps), eng.mkds("DS_2", comps))
        rows = [(1, "a", 1.5), (2, "b", None), (3, "a", -2.0), (4, "c", 0.00001234)]
        run_kw = {"data_structures": st, "datapoints": {"DS_1": eng.mkdf([c[0] for c in comps], rows), "DS_2": eng.mkdf([c[0] for c in comps], rows[:2])},
                  "return_only_persistent": False} if case.get("with_data") else None
        check_script(case["script"], "gen", emit, case, run_kw)
