"""C17 — concurrent API calls behave like sequential ones.
Monitor: every call of a trial is first executed alone (twice: the solo result must be deterministic to be an oracle),
then all calls of the trial are executed from 2-4 threads of one process; each concurrent return value (or raised error)
is compared with the solo one. Thread switches are provoked two ways: (a) sys.monitoring PY_START/PY_RETURN events
attached from the harness to the engine's shared-state access points (parser entry points and the 'last parse' state,
viral registry accessors, TimePeriodConfig, VirtualCounter, Exceptions.dataset_output writers, API entry points, transpile
and fetch steps) where the thread sleeps so that the others run right inside the window; (b) stress with a 1e-6 s switch
interval. The event log (thread, access point) of each trial is recorded and distinct interleavings are counted."""
import json
import random

ID = "C17"
LEVEL = "exploration"
RULE = ("trials of 2-4 threads x 1-3 calls each, mixed from run / semantic_analysis / prettify / create_ast over: scripts with "
        "different viral propagation rules on the same attribute, runs requesting different time-period output formats, "
        "scripts with distinctive comments, failing scripts, generic arithmetic and corpus scripts. Oracle: the concurrent "
        "return value (result digest / structure digest / text / AST shape) or error (class, code, message) of every call "
        "equals what the same call returned alone in the same process; the stand-in parser's stale-node counter stays 0. "
        "Schedules: forced yields at the hooked access points (seeded per trial) and 1e-6 switch-interval stress. "
        "Bucket = (schedule mode, thread count, sorted call features); one evaluation = one concurrent call compared.")
ASSUMPTIONS = ["the parser is the Python stand-in: its global 'last parse' state imitates the native g_state, but the native "
               "parser's own memory behaviour under threads is not observed",
               "a call whose two solo executions already differ is not used as an oracle (skipped)"]
FLOORS = {"quick": (300, 12), "thorough": (6000, 20)}
REQUIRED_COUNTERS = {"hook_events": 2000, "distinct_interleavings": 50, "forced_yields": 200}
NSH = 16

TP_FORMATS = ["vtl", "sdmx_reporting", "sdmx_gregorian", "natural"]
COMMENT_WORDS = ["alpha", "bravo", "charlie", "delta", "echo", "foxtrot", "golf", "hotel"]


def shards(tier, seed):
    return [{"shard": i, "nshards": NSH, "trials": 10 if tier == "quick" else 200} for i in range(NSH)]


# ------------------------------------------------------------------ calls
def make_call(rng, corpus_pool):
    from vf.props import c28
    r = rng.random()
    if r < 0.28:
        case = c28.make_case(rng)
        case["ctx"] = rng.choice(["binary", "join", "calc", "filter", "assignment", "dataset-scalar", "unary"])
        if case["rule"]["kind"] == "aggregate" and case["ctx"] in ("dataset-scalar", "unary"):
            case["ctx"] = "binary"
        kind = rng.choice(["run", "run", "run", "semantic"])
        return {"kind": kind, "feature": "viral", "viral": case}
    if r < 0.5:
        n = rng.randint(1, 4)
        per = rng.sample(["2020Q1", "2021M03", "2019A", "2022S2", "2020W07", "2021D045", "2018Q4", "2023M11"], n)
        return {"kind": "run", "feature": "tp", "fmt": rng.choice(TP_FORMATS), "periods": per,
                "script": rng.choice(["DS_r <- DS_1;", "DS_r <- DS_1[calc Me_2 := Me_1]; sc_r <- cast(\"2020Q3\", time_period);",
                                      "DS_r <- DS_1[filter Id_1 > 0]; DS_s <- DS_1[keep Me_1];"])}
    if r < 0.66:
        w = rng.sample(COMMENT_WORDS, 3)
        k = rng.randint(1, 99)
        script = (f"/* {w[0]} {k} */\nDS_r <- DS_1 + {k}; // {w[1]} {k}\n/* {w[2]} */ DS_s <- DS_1 * {k + 1};" if rng.random() < 0.7
                  else f"// only {w[0]} {k}\nDS_r <- DS_1[calc Me_2 := Me_1 + {k}];")
        return {"kind": rng.choice(["prettify", "prettify", "create_ast"]), "feature": "comments", "script": script}
    if r < 0.78:
        k = rng.randint(1, 50)
        bad = rng.choice([f"DS_out{k} <- DS_1[calc Me_2 := Me_404 + {k}];", f"DS_out{k} <- DS_1 + DS_404;", f"DS_out{k} <- DS_1[keep Me_1, Me_1];",
                          f"DS_ok <- DS_1; DS_out{k} <- DS_1[calc Me_2 := Me_1 || \"x\"];", f"DS_out{k} <- ;", f"DS_out{k} <- DS_1[calc Me_2 := ln(Me_1 - 1000)];"])
        return {"kind": rng.choice(["run", "semantic"]), "feature": "error", "script": bad}
    if r < 0.84:
        # a hierarchical ruleset defined at the top and used (without an explicit rule component) after many other statements: the
        # AST builder remembers the signature in module-level state between the definition and the use
        k = rng.randint(1, 9)
        filler = " ".join(f"F{j} := DS_1 * {j + k};" for j in range(rng.choice([3, 12, 25])))
        use = rng.choice(["DS_r <- hierarchy(DS_1, hr1 non_null all);", "DS_r <- check_hierarchy(DS_1, hr1 all);", "DS_r <- hierarchy(DS_1, hr1);"])
        script = f"define hierarchical ruleset hr1 (variable rule Id_2) is A = B + C; B >= C end hierarchical ruleset; {filler} {use}"
        return {"kind": rng.choice(["run", "semantic", "prettify", "create_ast"]), "feature": "hr", "script": script}
    if r < 0.9:
        # statements that need different SQL macro sets (division, instr, time operators)
        k = rng.randint(1, 9)
        # two macro sets only (division / instr), many different scripts per set: concurrent runs then often need the same set
        # right after a run that needed the other one
        script = rng.choice([f"DS_r <- DS_1 / {k};", f"DS_r <- DS_1[calc Me_2 := instr(Id_2, \"{'ABC'[k % 3]}\")];", f"DS_r <- DS_1[calc Me_2 := Me_1 / {k + 1}];",
                             f"DS_r <- DS_1[calc Me_2 := instr(Id_2, \"{'ABC'[k % 3]}\", 1, 1)];", f"DS_r <- DS_1[filter Me_1 / {k} > 1];",
                             f"DS_r <- DS_1[filter instr(Id_2, \"{'CBA'[k % 3]}\") > 0];"])
        return {"kind": "run", "feature": "macros", "script": script}
    if r < 0.95 or not corpus_pool:
        k = rng.randint(1, 9)
        ops = rng.sample(["DS_r <- DS_1 * {k};", "DS_s <- DS_1[calc Me_2 := Me_1 - {k}];", "DS_t <- sum(DS_1 group by Id_1);",
                          "DS_u <- inner_join(DS_1, DS_1[rename Me_1 to Me_3] as d2);", "sc_r <- {k} + 1;", "DS_v <- DS_1[filter Me_1 > {k}] ;",
                          "DS_w <- DS_1 + DS_1[calc Me_9 := {k}][drop Me_9];", "DS_x <- if DS_1 > {k} then DS_1 else DS_1 * 2;"], rng.randint(1, 4))
        return {"kind": rng.choice(["run", "run", "semantic", "create_ast"]), "feature": "generic", "script": " ".join(o.format(k=k) for o in ops),
                "rows": [[i, float(rng.randint(0, 20))] for i in range(1, rng.randint(3, 9))]}
    return {"kind": rng.choice(["run", "semantic"]), "feature": "corpus", "corpus": rng.choice(corpus_pool)}


def materialise(call):
    """(function name, args, kwargs) for the engine"""
    from vf import corpus, eng
    from vf.props import c28
    f = call["feature"]
    if f == "viral":
        case = call["viral"]
        agg = case["rule"]["kind"] == "aggregate"
        comps = [("Id_1", "Integer", "Identifier", False), ("Id_2", "String", "Identifier", False), ("Me_1", "Number", "Measure", True),
                 ("VAt_1", "Integer" if agg else "String", "Viral Attribute", True)]
        st = eng.structures(eng.mkds("DS_1", comps), eng.mkds("DS_2", comps))
        dp = {n: eng.mkdf([c[0] for c in comps], [tuple(r) for r in case[k]]) for n, k in (("DS_1", "ds1"), ("DS_2", "ds2"))}
        script = c28.script_of(case)
        return (script, st, dp, {})
    if f == "tp":
        comps = [("Id_1", "Integer", "Identifier", False), ("Me_1", "Time_Period", "Measure", True)]
        st = eng.structures(eng.mkds("DS_1", comps))
        dp = {"DS_1": eng.mkdf(["Id_1", "Me_1"], [(i + 1, p) for i, p in enumerate(call["periods"])])}
        return (call["script"], st, dp, {"time_period_output_format": call["fmt"]})
    if f in ("hr", "macros"):
        comps = [("Id_1", "Integer", "Identifier", False), ("Id_2", "String", "Identifier", False), ("Me_1", "Number", "Measure", True)]
        st = eng.structures(eng.mkds("DS_1", comps))
        rows = [(i, c, float(v)) for i in (1, 2) for c, v in zip("ABC", (10 + i, 4, 6 + i))]
        return (call["script"], st, {"DS_1": eng.mkdf(["Id_1", "Id_2", "Me_1"], rows)}, {})
    if f == "corpus":
        kw = dict(corpus.run_kwargs(call["corpus"]))
        script, st, dp = kw.pop("script"), kw.pop("data_structures"), kw.pop("datapoints")
        return (script, st, dp, kw)
    comps = [("Id_1", "Integer", "Identifier", False), ("Me_1", "Number", "Measure", True)]
    st = eng.structures(eng.mkds("DS_1", comps))
    rows = call.get("rows") or [[1, 1.0], [2, 5.0], [3, 9.0]]
    return (call["script"], st, {"DS_1": eng.mkdf(["Id_1", "Me_1"], [tuple(r) for r in rows])}, {})


def execute(call):
    """('ok', digest) | ('exc', (class, code, message))"""
    from vf import eng
    from vf.props import c24
    script, st, dp, kw = materialise(call)
    kind = call["kind"]
    try:
        if kind == "run":
            res = eng.run(script, st, dp, return_only_persistent=False, **kw)
            return "ok", ("run", eng.result_digest(res))
        if kind == "semantic":
            skw = {k: v for k, v in kw.items() if k in ("value_domains", "external_routines")}
            res = eng.semantic_analysis(script, st, **skw)
            return "ok", ("sem", {n: (type(o).__name__, [(c, x.data_type.__name__, x.role.value, x.nullable) for c, x in o.components.items()]
                                    if hasattr(o, "components") else getattr(getattr(o, "data_type", None), "__name__", None)) for n, o in res.items()})
        if kind == "prettify":
            import vtlengine
            return "ok", ("text", vtlengine.prettify(script))
        import vtlengine
        return "ok", ("ast", c24.shape(vtlengine.create_ast(script)))
    except Exception as e:  # noqa: BLE001
        name, code, _ = eng.exc_info(e)
        return "exc", (name, code, str(e)[:300])


def same_outcome(a, b):
    from vf import eng
    if a[0] != b[0]:
        return f"{'returns' if a[0] == 'ok' else 'raises ' + a[1][0]} alone but {'returns' if b[0] == 'ok' else 'raises ' + str(b[1][:2]) + ' ' + b[1][2][:120]} concurrently"
    if a[0] == "exc":
        if a[1][:2] != b[1][:2]:
            return f"error {a[1][:2]} alone vs {b[1][:2]} concurrently ({b[1][2][:100]})"
        if a[1][2] != b[1][2]:
            return f"message-differs: {a[1][2][:120]!r} alone vs {b[1][2][:120]!r} concurrently"
        return None
    if a[1][0] == "run":
        d = eng.digests_equal(a[1][1], b[1][1])
        return d and "result differs: " + d
    if a[1] != b[1]:
        if a[1][0] == "text":
            return f"text differs: {a[1][1][:160]!r} alone vs {b[1][1][:160]!r} concurrently"
        return f"{a[1][0]} differs"
    return None


# ------------------------------------------------------------------ hooks
class Hooks:
    """sys.monitoring PY_START / PY_RETURN on the access-point functions; acts only for the threads of the running trial"""
    TOOL = 4

    def __init__(self):
        import sys
        self.mon = sys.monitoring
        self.points = {}
        self.active = {}      # thread ident -> (label, rng, mode)
        self.events = []
        self.yields = 0
        self.total = 0
        self.group_events = {}

    def collect(self):
        import inspect
        import vtlengine.API as api
        import vtlengine.ViralPropagation as vp
        from vtlengine.AST import ASTComment
        from vtlengine.DataTypes.TimeHandling import TimePeriodConfig
        from vtlengine.files.output._time_period_representation import TimePeriodRepresentation
        from vtlengine.Interpreter import InterpreterAnalyzer
        from vtlengine.Utils.__Virtual_Assets import VirtualCounter
        import vboot
        fns = []
        for mod in (api, ASTComment, vboot.shim):
            for n, f in vars(mod).items():
                if inspect.isfunction(f) and f.__module__ == mod.__name__ and (mod is not vboot.shim or n in ("parse", "get_comments", "get_input_text", "get_syntax_error")):
                    fns.append((f"{mod.__name__.split('.')[-1]}.{n}", f))
        fns += [("vp.get_current_registry", vp.get_current_registry), ("vp.set_current_registry", vp.set_current_registry)]
        for cls, names in ((TimePeriodConfig, ("set_representation", "get_representation")), (TimePeriodRepresentation, ("check_value",)),
                           (VirtualCounter, ("_new_ds_name", "_new_dc_name", "reset")), (InterpreterAnalyzer, ("__init__", "visit_Start", "visit_ViralPropagationDef"))):
            for n in names:
                f = getattr(cls, n, None)
                f = getattr(f, "__func__", f)
                if f is not None and hasattr(f, "__code__"):
                    fns.append((f"{cls.__name__}.{n}", f))
        try:
            from vtlengine.duckdb_transpiler.Transpiler import SQLTranspiler
            for n in ("transpile", "visit_Start"):
                f = getattr(SQLTranspiler, n, None)
                if f is not None and hasattr(f, "__code__"):
                    fns.append((f"SQLTranspiler.{n}", f))
        except Exception:  # noqa: BLE001
            pass
        try:
            import vtlengine.duckdb_transpiler.sql as dsql
            from vtlengine.AST import ASTDataExchange  # noqa: F401  (module-level ruleset table lives here)
            for n, f in vars(dsql).items():
                if inspect.isfunction(f) and f.__module__ == dsql.__name__:
                    fns.append((f"sql.{n}", f))
                    # nested helper functions (closures) are separate code objects: hook them too
                    for const in f.__code__.co_consts:
                        if inspect.iscode(const):
                            self.points[const] = f"sql.{n}.<{const.co_name}>"
        except Exception:  # noqa: BLE001
            pass
        try:
            # the AST builder keeps ruleset signatures in a module-level table between a definition and its uses; these access
            # points are put into the 'API' group so that a thread parked here is released when another thread enters an API call
            from vtlengine.AST.ASTConstructor import ASTVisitor as _AV
            from vtlengine.AST.ASTConstructorModules.Expr import Expr as _EX
            for cls_, names_ in ((_AV, ("visitDefHierarchical", "visitDefDatapointRuleset")), (_EX, ("visitHierarchyFunctions", "visitValidateHRruleset"))):
                for n in names_:
                    f = getattr(cls_, n, None)
                    if f is not None and hasattr(f, "__code__"):
                        fns.append((f"API.ast-builder.{n}", f))
        except Exception:  # noqa: BLE001
            pass
        import vtlengine.duckdb_transpiler as dt
        for n, f in vars(dt).items():
            if inspect.isfunction(f) and n in ("execute_queries", "transpile", "fetch_result", "load_datapoints_duckdb"):
                fns.append((f"duckdb_transpiler.{n}", f))
        for name, f in fns:
            self.points[f.__code__] = name

    def install(self):
        import threading
        import time
        ev = self.mon.events
        self.mon.use_tool_id(self.TOOL, "c17")

        def cb(code, *rest, _when="start"):
            st = self.active.get(threading.get_ident())
            if st is None:
                return
            self.total += 1
            name = self.points.get(code, "?")
            self.events.append((st[0], name, _when))
            group = name.split(".")[0]
            evt = self.group_events.setdefault(group, threading.Event())
            evt.set()                      # wakes a thread that is parked inside this group's code (rendezvous, see below)
            if st[2] == "forced" and st[1].random() < 0.35:
                self.yields += 1
                if st[1].random() < 0.5:
                    time.sleep(st[1].choice((0.0, 0.0002, 0.001, 0.004)))
                else:
                    # rendezvous: stay parked at this access point until another thread of the trial reaches an access point of
                    # the same module (or 25 ms pass): the other thread then runs while this one is inside its window
                    evt.clear()
                    evt.wait(0.025)

        self.mon.register_callback(self.TOOL, ev.PY_START, lambda code, off: cb(code, _when="start"))
        self.mon.register_callback(self.TOOL, ev.PY_RETURN, lambda code, off, rv: cb(code, _when="return"))
        for code in self.points:
            self.mon.set_local_events(self.TOOL, code, ev.PY_START | ev.PY_RETURN)


def run_trial(trial, hooks, solo_cache, emit, counters, seen):
    import sys
    import threading
    import vboot
    # solo oracle
    plan = trial["threads"]
    solo = {}
    for calls in plan:
        for c in calls:
            key = json.dumps(c, sort_keys=True, default=str)
            if key not in solo_cache:
                a, b = execute(c), execute(c)
                solo_cache[key] = a if same_outcome(a, b) is None else None
            solo[key] = solo_cache[key]
    usable = [[c for c in calls if solo[json.dumps(c, sort_keys=True, default=str)] is not None] for calls in plan]
    dropped = sum(len(a) - len(b) for a, b in zip(plan, usable))
    if dropped:
        emit({"v": "skip", "why": "solo result not deterministic"})
    if sum(1 for u in usable if u) < 2:
        return
    stale0 = getattr(vboot.shim, "_stale_accesses", 0)
    results = [[None] * len(u) for u in usable]
    barrier = threading.Barrier(len(usable))
    hooks.events = []
    mode = trial["mode"]

    def body(ti):
        rng = random.Random(f"{trial['seed']}-{ti}")
        hooks.active[threading.get_ident()] = (ti, rng, mode)
        try:
            barrier.wait(30)
            for ci, c in enumerate(usable[ti]):
                results[ti][ci] = execute(c)
        except Exception as e:  # noqa: BLE001
            results[ti].append(("harness-error", repr(e)))
        finally:
            hooks.active.pop(threading.get_ident(), None)

    old = sys.getswitchinterval()
    if mode == "stress":
        sys.setswitchinterval(1e-6)
    ths = [threading.Thread(target=body, args=(i,), daemon=True) for i in range(len(usable))]
    try:
        for t in ths:
            t.start()
        for t in ths:
            t.join(240)
    finally:
        sys.setswitchinterval(old)
    if any(t.is_alive() for t in ths):
        emit({"v": "inc", "why": "a trial thread did not finish within 240 s (watchdog); not a verdict"})
        return "hung"
    sig = hash(tuple(e[0] for e in hooks.events))
    seen.add(sig)
    counters["hook_events"] += len(hooks.events)
    feats = sorted({c["feature"] for u in usable for c in u})
    bucket = f"{mode}/threads={len(usable)}/{'+'.join(feats)}"
    for ti, u in enumerate(usable):
        for ci, c in enumerate(u):
            got = results[ti][ci]
            want = solo[json.dumps(c, sort_keys=True, default=str)]
            if got is None:
                emit({"v": "inc", "why": "call did not run"})
                continue
            d = same_outcome(want, got)
            if d:
                cls = d.split(":")[0].split(" ")[0] if d.startswith(("message-differs", "result", "text")) else ("raises-instead" if want[0] == "ok" and got[0] == "exc" else "outcome-differs")
                extra = ""
                if c["feature"] == "tp":
                    others = {x.get("fmt") for uu in usable for x in uu if x.get("feature") == "tp"} - {c["fmt"]}
                    extra = "/other-format-concurrent" if others else "/same-format-only"
                if c["feature"] == "viral":
                    extra = "/" + c["viral"]["rule"]["kind"]
                emit({"v": "viol", "b": bucket, "mech": f"{c['kind']}/{c['feature']}{extra}/{cls}",
                      "what": f"thread {ti} call {ci} ({c['kind']} {c['feature']}) with {len(usable)} threads [{mode}]: {d[:300]}", "case": trial})
            else:
                emit({"v": "held", "b": bucket, "sample": {"kind": c["kind"], "feature": c["feature"], "threads": len(usable), "mode": mode,
                                                             "hook_events_in_trial": len(hooks.events)}})
    stale = getattr(vboot.shim, "_stale_accesses", 0)
    if stale != stale0:
        emit({"v": "viol", "b": bucket, "mech": "stale-parse-tree-node-touched", "what": f"{stale - stale0} accesses to nodes of an older parse (would be freed memory in the native parser)", "case": trial})


def make_trial(rng, corpus_pool, mode=None):
    nt = rng.choice([2, 2, 3, 3, 4])
    focus = rng.random()
    threads = []
    for _ in range(nt):
        calls = [make_call(rng, corpus_pool) for _ in range(rng.randint(1, 3))]
        threads.append(calls)
    if focus < 0.25:     # different viral rules / formats against each other
        for calls in threads:
            calls[0] = make_call(random.Random(rng.random()), [])
            while calls[0]["feature"] not in ("viral", "tp"):
                calls[0] = make_call(rng, [])
    elif focus < 0.45:   # runs that need different SQL macro sets / ruleset signatures against each other
        for calls in threads:
            calls[0] = make_call(rng, [])
            while calls[0]["feature"] not in ("macros", "hr") or calls[0]["kind"] not in ("run", "semantic"):
                calls[0] = make_call(rng, [])
    return {"threads": threads, "mode": mode or rng.choice(["forced", "forced", "stress"]), "seed": rng.randrange(1 << 30)}


def run_shard(spec, emit):
    from vf import eng, rider
    rng = random.Random(f"C17-{spec['seed']}-{spec['shard']}")
    hooks = Hooks()
    hooks.collect()
    hooks.install()
    emit({"v": "info", "k": "access_points", "val": sorted(set(hooks.points.values()))})
    pool = []
    if spec["tier"] == "thorough":
        pool = [c for c in rider.corpus_slice(spec, quick_fraction=1, tag="C17")][:60]
    counters = {"hook_events": 0}
    seen = set()
    cache = {}
    bud = eng.Budget(spec.get("budget_s", 110 if spec["tier"] == "quick" else 3000))
    for _ in range(spec["trials"]):
        if not bud.ok():
            emit({"v": "inc", "why": "cut by wall-clock budget"})
            break
        if run_trial(make_trial(rng, pool), hooks, cache, emit, counters, seen, ) == "hung":
            break
    emit({"v": "ctr", "ctr": {"hook_events": counters["hook_events"], "distinct_interleavings": len(seen), "forced_yields": hooks.yields}})


def replay(case, emit):
    hooks = Hooks()
    hooks.collect()
    hooks.install()
    counters = {"hook_events": 0}
    for i in range(25):
        t = dict(case)
        t["seed"] = case["seed"] + i
        run_trial(t, hooks, {}, emit, counters, set())
