"""C16 — run() releases its session resources at every failure point.

Fault enumeration: for each case a clean run counts the DB calls N made through the connection proxy; then run() is
repeated with a failpoint at every call k = 1..N (raising a duckdb.Error, an OSError or a plain Exception), and with
natural faults. After every failing run the monitor probes: did run() raise; is the private VTL_TEMP_DIRECTORY empty
(no duckdb_tmp_* dir, no session.duckdb); is the real connection closed; does any fd of the process point into the
session directory; and does a following clean run return the clean baseline."""
import os
import random

ID = "C16"
LEVEL = "fault_enumeration"
RULE = ("for each case (generated multi-input dependency graphs with DataFrame and CSV inputs, scalar results, with and "
        "without output_folder (csv/parquet), in-memory and file-backed database) every DB call boundary k=1..N of the clean "
        "run is a fault point (fault kinds duckdb.Error / OSError / Exception), plus natural faults (missing file, malformed "
        "cell in the j-th input, duplicate keys, zero divisor in statement j, output folder that is a file, configuration "
        "variables holding unusable values, eval() external routines that fail in five ways); 1-3 consecutive "
        "failing runs are followed by a clean run. Oracle after each failing run: run() raised; temp directory listing empty; "
        "captured connection refuses 'select 1'; every other connection handed out by duckdb.connect during the call (census "
        "wrapper) is closed; no /proc/self/fd target inside the temp directory; the next clean run equals "
        "the clean baseline. Bucket = (stage of the failing call, fault kind, db mode, output mode, position in the failing "
        "sequence); one evaluation = one fault point.")
ASSUMPTIONS = ["fault points are the Python-visible DB calls (execute/sql/register/unregister/table); faults inside DuckDB "
               "between two such calls are represented by the natural faults only"]
FLOORS = {"quick": (600, 40), "thorough": (15000, 80)}
REQUIRED_COUNTERS = {"faults_fired": 300, "conn_probes": 300, "clean_followups": 100}
NSH = 16

COMPS = [("Id_1", "Integer", "Identifier", False), ("Me_1", "Number", "Measure", True)]


def shards(tier, seed):
    return [{"shard": i, "nshards": NSH, "ncases": 3 if tier == "quick" else 40} for i in range(NSH)]


def make_case(rng):
    n = rng.randint(1, 4)
    ni = rng.randint(1, 3)
    g = []
    for j in range(n):
        while True:
            rm = rng.randrange(1 << j) if j else 0
            im = rng.randrange(1 << ni)
            if rm or im:
                break
        g.append([rm, im])
    return {"n": n, "ni": ni, "g": g, "pmask": rng.randrange(1, 1 << n), "rop": rng.random() < 0.6,
            "csv_inputs": rng.randrange(1 << ni), "out": rng.choice([None, None, "csv", "parquet"]),
            "filedb": rng.random() < 0.35, "scalar": rng.random() < 0.3, "kind_seed": rng.randrange(1 << 30)}


def build(case, workdir):
    from vf import eng
    n, ni = case["n"], case["ni"]
    stmts = []
    for j, (rm, im) in enumerate(case["g"]):
        ops = [f"S{i + 1}" for i in range(j) if rm >> i & 1] + [f"IN_{i + 1}" for i in range(ni) if im >> i & 1]
        arrow = "<-" if case["pmask"] >> j & 1 else ":="
        stmts.append(f"S{j + 1} {arrow} {' + '.join(ops)} + {j + 1};")
    if case["scalar"]:
        stmts.append("sc_r <- 1 + 2;")
    script = "\n".join(stmts)
    st = eng.structures(*[eng.mkds(f"IN_{i + 1}", COMPS) for i in range(ni)])
    dps = {}
    for i in range(ni):
        rows = [(k, float(i * 10 + k)) for k in (1, 2, 3)]
        if case["csv_inputs"] >> i & 1:
            p = os.path.join(workdir, f"IN_{i + 1}.csv")
            with open(p, "w") as f:
                f.write("Id_1,Me_1\n" + "".join(f"{a},{b}\n" for a, b in rows))
            from pathlib import Path
            dps[f"IN_{i + 1}"] = Path(p)
        else:
            dps[f"IN_{i + 1}"] = eng.mkdf(["Id_1", "Me_1"], rows)
    return script, st, dps


def fd_targets_inside(path):
    out = []
    try:
        for fd in os.listdir("/proc/self/fd"):
            try:
                t = os.readlink(f"/proc/self/fd/{fd}")
            except OSError:
                continue
            if t.startswith(path):
                out.append(t)
    except OSError:
        pass
    return out


def stage_of(log, k):
    from vf.eng import classify_sql
    kind, text = log[k - 1]
    if kind in ("register", "unregister", "table"):
        return kind
    c, _ = classify_sql(text)
    return c


def run_case(case, emit):
    import duckdb
    import shutil
    from vf import eng
    eng.install_conn_proxy()
    eng.install_connect_census()
    tmpd = os.environ["VTL_TEMP_DIRECTORY"]
    work = os.path.join(eng.SCRATCH, "c16")
    shutil.rmtree(work, ignore_errors=True)
    os.makedirs(work)
    script, st, dps = build(case, work)
    outdir = os.path.join(work, "out")
    kw = dict(return_only_persistent=case["rop"])
    if case["out"]:
        kw.update(output_folder=outdir, output_format=case["out"])
    if case["filedb"]:
        os.environ["VTL_USE_IN_MEMORY_DB"] = "0"
    else:
        os.environ.pop("VTL_USE_IN_MEMORY_DB", None)
    mode = f"db={'file' if case['filedb'] else 'mem'}/out={case['out']}"

    def fresh_dps():
        return {k: (v.copy() if hasattr(v, "copy") else v) for k, v in dps.items()}

    def outputs_digest(res):
        d = eng.result_digest(res)
        if case["out"]:
            files = sorted(os.listdir(outdir)) if os.path.isdir(outdir) else []
            d["__files__"] = ("other", repr(files))
        return d

    eng.clean_tmp()
    eng.PROXY.reset()
    shutil.rmtree(outdir, ignore_errors=True)
    status, res = eng.call(eng.run, script, st, fresh_dps(), **kw)
    if status == "exc":
        emit({"v": "skip", "why": f"clean run raises {type(res).__name__}: {str(res)[:100]}"})
        return
    base = outputs_digest(res)
    clean_log = list(eng.PROXY["log"])
    N = eng.PROXY["n"]
    leftover = eng.tmp_listing()
    if leftover or not eng.conn_is_closed(eng.PROXY["real"]):
        emit({"v": "viol", "b": f"clean/{mode}", "mech": "clean-run-leaves-resources",
              "what": f"after a successful run: temp dir {leftover}, connection closed={eng.conn_is_closed(eng.PROXY['real'])}",
              "case": case})
        eng.clean_tmp()
    rng = random.Random(case["kind_seed"])
    factories = {
        "duckdb": lambda k: duckdb.IOException(f"injected duckdb fault at DB call {k}"),
        "oserror": lambda k: OSError(28, f"injected OSError at DB call {k}"),
        "exception": lambda k: eng.InjectedFault(f"injected fault at DB call {k}"),
    }
    seq_len = 0
    seq_target = rng.randint(1, 3)

    def probe(label, bucket, raised, err):
        nonlocal seq_len, seq_target
        problems = []
        if not raised:
            problems.append("run() returned normally although the fault fired")
        left = eng.tmp_listing()
        if left:
            problems.append(f"temp directory not empty: {left[:3]}")
        real = eng.PROXY["real"]
        if real is not None:
            emit({"v": "ctr", "ctr": {"conn_probes": 1}})
            if not eng.conn_is_closed(real):
                problems.append("database connection still open")
                try:
                    real.close()
                except Exception:  # noqa: BLE001
                    pass
        still_open = [c for c in eng.CONNECTIONS if c is not real and not eng.conn_is_closed(c)]
        if still_open:
            problems.append(f"another database connection opened during the failing call is still open ({len(still_open)})")
            for c in still_open:
                try:
                    c.close()
                except Exception:  # noqa: BLE001
                    pass
        del eng.CONNECTIONS[:]
        fds = fd_targets_inside(tmpd)
        if fds:
            problems.append(f"open file descriptors into the session directory: {fds[:2]}")
        eng.clean_tmp()
        seq_len += 1
        if seq_len >= seq_target:
            pos = seq_len
            seq_len = 0
            seq_target = rng.randint(1, 3)
            eng.PROXY.reset()
            shutil.rmtree(outdir, ignore_errors=True)
            s2, r2 = eng.call(eng.run, script, st, fresh_dps(), **kw)
            emit({"v": "ctr", "ctr": {"clean_followups": 1}})
            if s2 == "exc":
                problems.append(f"clean run after {pos} failing run(s) raises {type(r2).__name__}: {str(r2)[:120]}")
            else:
                d = eng.digests_equal(outputs_digest(r2), base)
                if d:
                    problems.append(f"clean run after {pos} failing run(s) differs from baseline: {d}")
            if eng.tmp_listing():
                problems.append("follow-up clean run leaves temp files")
                eng.clean_tmp()
            bucket += f"/seq={pos}"
        if problems:
            key = "+".join(sorted({p.split(":")[0].split(" after ")[0][:40] for p in problems}))
            emit({"v": "viol", "b": bucket, "mech": f"{'natural' if ':' in label or '@' not in label else 'injected'}/{key}",
                  "what": f"{label} ({mode}) script={script!r}: {problems}", "case": dict(case, only=label)})
        else:
            emit({"v": "held", "b": bucket,
                  "sample": {"fault": label, "mode": mode, "script": script, "error": f"{type(err).__name__}: {str(err)[:80]}"}})

    only = case.get("only")
    for k in range(1, N + 1):
        kinds = list(factories)
        kind = kinds[(k + case["kind_seed"]) % 3]
        label = f"{kind}@{k}"
        if only and only != label:
            continue
        stage = stage_of(clean_log, k)
        eng.PROXY.reset(fail_at=k, fault_factory=factories[kind])
        del eng.CONNECTIONS[:]
        shutil.rmtree(outdir, ignore_errors=True)
        status, r = eng.call(eng.run, script, st, fresh_dps(), **kw)
        fired = eng.PROXY["fired"]
        if not fired:
            emit({"v": "inc", "why": "failpoint not reached (call count changed between runs)"})
            continue
        emit({"v": "ctr", "ctr": {"faults_fired": 1}})
        probe(label, f"{stage}/{kind}/{mode}", status == "exc", r)

    # natural faults ------------------------------------------------------------------------------
    nat = []
    ni = case["ni"]
    for i in range(ni):
        name = f"IN_{i + 1}"
        used = any(im >> i & 1 for _, im in case["g"])
        if not used:
            continue
        if case["csv_inputs"] >> i & 1:
            nat.append((f"missing-file:{name}", "dps", {name: __import__("pathlib").Path(os.path.join(work, "nope.csv"))}))
            bad = os.path.join(work, f"bad_{name}.csv")
            with open(bad, "w") as f:
                f.write("Id_1,Me_1\n1,1.0\n2,abc\n")
            nat.append((f"malformed-csv:{name}", "dps", {name: __import__("pathlib").Path(bad)}))
            dup = os.path.join(work, f"dup_{name}.csv")
            with open(dup, "w") as f:
                f.write("Id_1,Me_1\n1,1.0\n1,2.0\n")
            nat.append((f"duplicate-keys-csv:{name}", "dps", {name: __import__("pathlib").Path(dup)}))
        else:
            nat.append((f"malformed-df:{name}", "dps", {name: eng.mkdf(["Id_1", "Me_1"], [(1, 1.0), (2, "abc")])}))
            nat.append((f"duplicate-keys-df:{name}", "dps", {name: eng.mkdf(["Id_1", "Me_1"], [(1, 1.0), (1, 2.0)])}))
            nat.append((f"null-identifier-df:{name}", "dps", {name: eng.mkdf(["Id_1", "Me_1"], [(None, 1.0), (1, 2.0)])}))
    for j in range(case["n"]):
        nat.append((f"zero-divisor:S{j + 1}", "script", j))
    if case["out"]:
        nat.append(("output-folder-is-a-file", "out", None))
    for var, val in (("VTL_THREADS", "auto"), ("VTL_THREADS", "2.0"), ("VTL_DUCKDB_DECIMAL_WIDTH", "28.0"), ("OUTPUT_NUMBER_SIGNIFICANT_DIGITS", ""),
                     ("VTL_MEMORY_LIMIT", "lots"), ("VTL_THREADS", "0"), ("VTL_DUCKDB_DECIMAL_WIDTH", "99")):
        if rng.random() < 0.3:       # a sample per case: the injected fault points keep most of the budget
            nat.append((f"unusable-setting:{var}={val!r}", "env", (var, val)))
    eval_script = ('DS_e <- eval(R1(IN_1) language "SQL" returns dataset {identifier<integer> Id_1, measure<number> Me_1});\n' + script)
    for rname, query in (("self-join", "SELECT a.Id_1, a.Me_1 FROM IN_1 a JOIN IN_1 b ON a.Id_1 = b.Id_1"), ("unknown-column", "SELECT Id_1, Me_9 AS Me_1 FROM IN_1"),
                         ("syntax-error", "SELEC Id_1 FROM IN_1"), ("subquery-same-table", "SELECT Id_1, Me_1 FROM IN_1 WHERE Id_1 IN (SELECT Id_1 FROM IN_1)"),
                         ("wrong-result-columns", "SELECT Id_1 FROM IN_1")):
        if rng.random() < 0.4:
            nat.append((f"eval-routine:{rname}", "eval", query))
    for label, what, arg in nat:
        if only and only != label:
            continue
        d2 = fresh_dps()
        sc = script
        kw2 = dict(kw)
        if what == "dps":
            d2.update(arg)
        elif what == "script":
            lines = script.split("\n")
            lines[arg] = lines[arg].replace(f" + {arg + 1};", f" + {arg + 1} / 0;")
            sc = "\n".join(lines)
        elif what == "out":
            blocker = os.path.join(work, "blocker")
            open(blocker, "w").close()
            kw2["output_folder"] = os.path.join(blocker, "sub")
        elif what == "eval":
            sc = eval_script
            kw2["external_routines"] = {"name": "R1", "query": arg}
        saved_env = None
        if what == "env":
            saved_env = (arg[0], os.environ.get(arg[0]))
            os.environ[arg[0]] = arg[1]
        eng.PROXY.reset()
        eng.PROXY["real"] = None
        del eng.CONNECTIONS[:]
        shutil.rmtree(outdir, ignore_errors=True)
        try:
            status, r = eng.call(eng.run, sc, st, d2, **kw2)
        finally:
            if saved_env is not None:
                if saved_env[1] is None:
                    os.environ.pop(saved_env[0], None)
                else:
                    os.environ[saved_env[0]] = saved_env[1]
        if status == "ok":
            emit({"v": "inc", "why": f"natural fault {label.split(':')[0]} did not make run() fail"})
            continue
        emit({"v": "ctr", "ctr": {"natural_faults": 1}})
        probe(label, f"natural/{label.split(':')[0]}/{mode}", True, r)
    os.environ.pop("VTL_USE_IN_MEMORY_DB", None)
    shutil.rmtree(work, ignore_errors=True)


def run_shard(spec, emit):
    from vf import eng
    rng = random.Random(f"C16-{spec['seed']}-{spec['shard']}")
    bud = eng.Budget(spec.get("budget_s", 120 if spec["tier"] == "quick" else 2400))
    for _ in range(spec["ncases"]):
        if not bud.ok():
            emit({"v": "inc", "why": "cut by wall-clock budget"})
            break
        run_case(make_case(rng), emit)


def replay(case, emit):
    run_case(case, emit)
