"""C03 — aggregations group and summarise as specified.
Differential monitor against an exact (Fraction) aggregation model."""
import math
import random
from fractions import Fraction

ID = "C03"
LEVEL = "exploration"
RULE = ("the ten aggregates x {group by, group except (incl. all identifiers), no grouping} x optional having "
        "(avg/sum/min/max/count conditions that are true, false and null for different groups), standalone and inside aggr "
        "clauses (1-3 assignments), over 0-200 datapoints with repeated keys in the non-grouped identifiers, null measures, "
        "all-null groups and single-row groups. Oracle: exact rational arithmetic per group, nulls ignored, one datapoint per "
        "distinct group, having keeps the groups whose condition is true. Conventions the property does not fix are UNSPEC: "
        "median of an even-sized group with different middle values, sample statistics of one value, count on multi-measure "
        "datasets with nulls, aggregates of an empty ungrouped input. Bucket = (aggregate, grouping kind, having outcome mix, "
        "all-null group present, form); one evaluation = one aggregate result compared.")
ASSUMPTIONS = ["count = number of non-null values of the (single) measure, as the property says nulls are ignored",
               "measures compared by position; names are C10's subject"]
FLOORS = {"quick": (350, 60), "thorough": (8000, 150)}
NSH = 16
N = {"quick": 40, "thorough": 1000}
AGGS = ["sum", "avg", "count", "min", "max", "median", "stddev_pop", "stddev_samp", "var_pop", "var_samp"]


def shards(tier, seed):
    return [{"shard": i, "nshards": NSH, "n": N[tier]} for i in range(NSH)]


def make_case(rng, big=False):
    ids = [["Id_1", "Integer"], ["Id_2", "String"]]
    if rng.random() < 0.4:
        ids.append(["Id_3", "Integer"])
    agg = rng.choice(AGGS)
    form = rng.choice(["standalone", "standalone", "aggr"])
    nme = 1 if (agg == "count" or rng.random() < 0.6) else 2
    want_having = rng.random() < 0.45
    if form == "standalone" and want_having:
        nme = 1          # the engine only supports having on mono-measure operands of the standalone form
    mtypes = [rng.choice(["Integer", "Number"]) for _ in range(nme)]
    if agg in ("min", "max") and rng.random() < 0.3:
        mtypes = ["String"] * nme
    pools = {"Id_1": [1, 2, 3], "Id_2": ["a", "b", "c"], "Id_3": [10, 20, 30, 40]}
    keys = [()]
    for n, _ in ids:
        keys = [k + (v,) for k in keys for v in pools[n]]
    rng.shuffle(keys)
    nrows = rng.randint(0, len(keys)) if not big else len(keys)
    if rng.random() < 0.1:
        nrows = min(len(keys), rng.choice([0, 1]))
    nullp = rng.choice([0.0, 0.2, 0.5])
    vals = {"Integer": [0, 1, 2, 3, 5, 8, -4, 10, 100], "Number": [0.5, 1.5, 2.25, -3.75, 10.0, 0.0, 7.125, 100.5], "String": ["a", "B", "zz", "", "m"]}
    rows = []
    nullgroup = rng.choice(pools["Id_1"]) if rng.random() < 0.3 else None
    for k in keys[:nrows]:
        ms = [None if (rng.random() < nullp or k[0] == nullgroup) else rng.choice(vals[t]) for t in mtypes]
        rows.append(list(k) + ms)
    idn = [n for n, _ in ids]
    gk = rng.choice(["by", "by", "except", "except-all", "none"])
    if gk == "by":
        gids = rng.sample(idn, rng.randint(1, len(idn)))
    elif gk == "except":
        gids = rng.sample(idn, rng.randint(1, len(idn) - 1))
    elif gk == "except-all":
        gids = list(idn)
    else:
        gids = []
    having = None
    if gk != "none" and want_having:
        hf = rng.choice(["avg", "sum", "min", "max", "count", "count0", "count0"]) if mtypes[0] != "String" else rng.choice(["count", "count0"])
        thr = rng.choice([0, 1, 2, 3, 5]) if hf.startswith("count") else rng.choice([0, 1.5, 3, 10, -1])
        having = [hf, rng.choice([">", ">=", "<", "=", "<>"]), thr]
    aggr_items = None
    if form == "aggr":
        aggr_items = []
        for j in range(rng.randint(1, 3)):
            a = agg if j == 0 else rng.choice(AGGS)
            m = rng.randrange(nme)
            if mtypes[m] == "String" and a not in ("min", "max", "count"):
                a = "max"
            aggr_items.append([f"Me_a{j}", a, m])
    return {"ids": ids, "mtypes": mtypes, "rows": rows, "agg": agg, "form": form, "gk": gk, "gids": gids, "having": having, "aggr": aggr_items}


def agg_value(a, values, multi_measure_with_nulls=False, ungrouped_dataset_level=False):
    """values: list incl. None. -> value | None | 'UNSPEC'"""
    from vf import model
    xs = [v for v in values if v is not None]
    if a == "count":
        if not xs and ungrouped_dataset_level and not multi_measure_with_nulls:
            return 0             # the count of nothing over the whole operand is 0, never null
        if multi_measure_with_nulls or not xs:
            return "UNSPEC"      # count of an all-null *group*: 0 and null are both defensible
        return len(xs)
    if not xs:
        return None
    if a in ("min", "max"):
        return min(xs) if a == "min" else max(xs)
    fx = [model.to_frac(v) for v in xs]
    n = len(fx)
    if a == "sum":
        s = sum(fx)
        return int(s) if all(isinstance(v, int) for v in xs) else s
    if a == "avg":
        return sum(fx) / n
    if a == "median":
        s = sorted(fx)
        if n % 2:
            return s[n // 2]
        return s[n // 2] if s[n // 2] == s[n // 2 - 1] else "UNSPEC"
    mean = sum(fx) / n
    ss = sum((v - mean) ** 2 for v in fx)
    if a in ("var_pop", "stddev_pop"):
        v = ss / n
    else:
        if n < 2:
            return "UNSPEC"
        v = ss / (n - 1)
    return v if a.startswith("var") else math.sqrt(float(v))


def model_run(case):
    """-> (group id names, {key: [values]}) | 'UNSPEC', meta"""
    from vf import model
    idn = [n for n, _ in case["ids"]]
    nid = len(idn)
    gk = case["gk"]
    if gk in ("by",):
        gids = [n for n in idn if n in case["gids"]]
    elif gk in ("except", "except-all"):
        gids = [n for n in idn if n not in case["gids"]]
    else:
        gids = []
    groups = {}
    for r in case["rows"]:
        key = tuple(r[idn.index(n)] for n in gids)
        groups.setdefault(key, []).append(r)
    meta = {"allnull": False, "having": set(), "single": any(len(g) == 1 for g in groups.values())}
    nme = len(case["mtypes"])
    if not case["rows"] and not gids:
        return "UNSPEC", meta
    any_null = any(v is None for r in case["rows"] for v in r[nid:])
    out = {}
    unspec = False
    skipkeys = set()
    for key, g in groups.items():
        cols = [[model.num_in(r[nid + j]) for r in g] for j in range(nme)]
        if any(all(v is None for v in c) for c in cols):
            meta["allnull"] = True
        if case["having"]:
            hf, op, thr = case["having"]
            hv = agg_value("count" if hf.startswith("count") else hf, cols[0], nme > 1 and any_null and hf.startswith("count"))
            if hv == "UNSPEC":
                skipkeys.add(key)       # this group alone is undecided; the other groups still are
                continue
            cond = model.apply(op, [hv, model.num_in(thr)])
            if cond is model.UNSPEC:
                skipkeys.add(key)
                continue
            meta["having"].add({True: "T", False: "F", None: "N"}[cond])
            if cond is not True:
                continue
        if case["form"] == "aggr":
            vals = [agg_value(a, cols[m], False) for _, a, m in case["aggr"]]
        elif case["agg"] == "count":
            vals = [agg_value("count", cols[0], nme > 1 and any_null, ungrouped_dataset_level=not gids)]
        else:
            vals = [agg_value(case["agg"], c) for c in cols]
        if any(v == "UNSPEC" for v in vals):
            skipkeys.add(key)
            continue
        out[key] = vals
    if unspec or (skipkeys and not gids):
        return "UNSPEC", meta
    meta["undecided_groups"] = len(skipkeys)
    return (gids, out, skipkeys), meta


def render(case):
    gk = case["gk"]
    grp = ""
    if gk == "by":
        idn = [n for n, _ in case["ids"]]
        grp = " group by " + ", ".join(n for n in idn if n in case["gids"])
    elif gk in ("except", "except-all"):
        grp = " group except " + ", ".join(case["gids"])
    hv = ""
    if case["having"]:
        hf, op, thr = case["having"]
        from vf import gen
        f = "count()" if hf == "count0" else f"{hf}(Me_1)"
        hv = f" having {f} {op} {gen.lit(thr)}"
    if case["form"] == "aggr":
        items = ", ".join(f"{n} := {a}(Me_{m + 1})" for n, a, m in case["aggr"])
        return f"DS_r <- DS_1[aggr {items}{grp}{hv}];"
    return f"DS_r <- {case['agg']}(DS_1{grp}{hv});"


def run_case(case, emit):
    from vf import eng, model
    comps = [(n, t, "Identifier", False) for n, t in case["ids"]] + [(f"Me_{j + 1}", t, "Measure", True) for j, t in enumerate(case["mtypes"])]
    script = render(case)
    exp, meta = model_run(case)
    hmix = "".join(sorted(meta["having"])) or "-"
    label = case["agg"] if case["form"] == "standalone" else "+".join(sorted({a for _, a, _ in case["aggr"]}))
    bucket = f"{case['form']}/{label}/{case['gk']}/having={hmix}/allnull={meta['allnull']}/single={meta['single']}"
    status, res = eng.call(eng.run, script, eng.structures(eng.mkds("DS_1", comps)), {"DS_1": eng.mkdf([c[0] for c in comps], [tuple(r) for r in case["rows"]])})
    if status == "exc":
        name, code, _ = eng.exc_info(res)
        if name in ("SemanticError", "VTLSyntaxError"):
            emit({"v": "skip", "why": f"generator_rejected {code}"})
        elif exp == "UNSPEC":
            emit({"v": "inc", "why": "model unspecified and engine raised"})
        else:
            emit({"v": "viol", "b": bucket, "mech": f"valid-aggregation-raises/{name}/{case['form']}", "what": f"{script} raised {name} {code}: {str(res)[:200]}", "case": case})
        return
    if exp == "UNSPEC":
        emit({"v": "inc", "why": "model unspecified"})
        return
    gids, out, skipkeys = exp
    ds = res["DS_r"]
    got_ids = [n for n, c in ds.components.items() if c.role.value == "Identifier"]
    if sorted(got_ids) != sorted(gids):
        emit({"v": "viol", "b": bucket, "mech": f"result-identifiers/{case['gk']}", "what": f"{script}: identifiers {got_ids} expected {gids}", "case": case})
        return
    cols, got, nk = eng.ds_rows(ds)
    perm = [gids.index(n) for n in got_ids]
    want = [tuple(k[i] for i in perm) + tuple(model.out(v) for v in vals) for k, vals in out.items()]
    if skipkeys:
        sk = {tuple(k[i] for i in perm) for k in skipkeys}
        got = [r for r in got if tuple(r[:len(gids)]) not in sk]
    d = eng.same_rowset(got, want, len(gids) or None, tol=1e-7)
    if d:
        emit({"v": "viol", "b": bucket, "mech": f"wrong-aggregate/{label if case['form'] == 'standalone' else 'aggr'}/{case['gk']}/having={'yes' if case['having'] else 'no'}",
              "what": f"{script}: {d}", "case": case})
    else:
        emit({"v": "held", "b": bucket if case["rows"] else "trivial-empty-input", "sample": {"script": script, "rows_in": len(case["rows"]), "groups_out": len(want)}})


def run_shard(spec, emit):
    from vf import eng
    rng = random.Random(f"C03-{spec['seed']}-{spec['shard']}")
    bud = eng.Budget(spec.get("budget_s", 100 if spec["tier"] == "quick" else 2400))
    # boundary shapes every shard sees once: whole-operand aggregates (no grouping / group except every identifier) over operands
    # whose measure is null everywhere, null nowhere, or that hold a single datapoint
    for agg in (["count", "sum", "min"] if spec["shard"] % 2 else ["count", "avg", "max"]):
        for gk in ("none", "except-all"):
            for fill in ("all-null", "no-null", "single"):
                c = make_case(rng)
                c.update(agg=agg, form="standalone", gk=gk, gids=[n for n, _ in c["ids"]] if gk == "except-all" else [], having=None, aggr=None, mtypes=["Integer"])
                nid = len(c["ids"])
                rows = [r[:nid] + [None if fill == "all-null" else (i % 5) + 1] for i, r in enumerate(c["rows"] or [[1, "a", 10][:nid] + [None]])]
                c["rows"] = rows[:1] if fill == "single" else rows
                run_case(c, emit)
    for i in range(spec["n"]):
        if not bud.ok():
            emit({"v": "inc", "why": "cut by wall-clock budget"})
            break
        run_case(make_case(rng, big=(i % 7 == 0)), emit)


def replay(case, emit):
    run_case(case, emit)
