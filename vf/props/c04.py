"""C04 — joins combine datasets as specified.
Differential monitor: run() vs a relational join model (keys, alias disambiguation, nulls for the missing side,
join body filter / calc / keep / drop / rename / aggr)."""
import random

ID = "C04"
LEVEL = "exploration"
RULE = ("inner_join / left_join / full_join of 2-3 datasets with equal identifier sets, inner_join with nested identifier sets "
        "(narrow or wide operand first) or with using, cross_join of datasets with disjoint names; measure names distinct or "
        "overlapping (then aliases and a body that resolves them); body = filter? (calc|aggr)? (keep|drop)? rename? in grammar "
        "order; data with partial key overlap so that unmatched rows exist on every side and rows that match on one identifier "
        "but differ on another. Oracle: relational join on the join keys, operand by operand, nulls for the missing side, body "
        "clauses applied to the joined rows; result compared by component name on the identifier key. "
        "Bucket = (join kind, operand count, identifier relation, using, body clauses, unmatched rows left/right, overlapping "
        "names); one evaluation = one join result compared.")
ASSUMPTIONS = ["after the body an alias-qualified component that is no longer ambiguous is exposed under its plain name",
               "multi-operand joins are modelled operand by operand from left to right on the identifiers shared with the accumulated result"]
FLOORS = {"quick": (300, 50), "thorough": (7000, 150)}
NSH = 16
N = {"quick": 40, "thorough": 1000}


def shards(tier, seed):
    return [{"shard": i, "nshards": NSH, "n": N[tier]} for i in range(NSH)]


IDT = {"Id_1": "Integer", "Id_2": "String"}
IDV = {"Id_1": [1, 2, 3], "Id_2": ["a", "b"]}
MV = {"Integer": [0, 1, 2, 5, -3, 10], "Number": [0.5, 1.5, -2.25, 10.0, 3.0], "String": ["x", "y", "", "zz"]}


def make_case(rng):
    kind = rng.choices(["inner", "left", "full", "cross"], [5, 3, 3, 1])[0]
    nds = 2 if kind == "cross" or rng.random() < 0.6 else 3
    overlap = kind != "cross" and rng.random() < 0.5
    rel = "equal"
    using = None
    idsets = [["Id_1", "Id_2"]] * nds
    if kind == "inner" and rng.random() < 0.45:
        rel = rng.choice(["narrow-first", "wide-first", "narrow-middle"]) if nds == 3 else rng.choice(["narrow-first", "wide-first"])
        if nds == 2:
            idsets = [["Id_1"], ["Id_1", "Id_2"]] if rel == "narrow-first" else [["Id_1", "Id_2"], ["Id_1"]]
        else:
            idsets = {"narrow-first": [["Id_1"], ["Id_1", "Id_2"], ["Id_1", "Id_2"]], "wide-first": [["Id_1", "Id_2"], ["Id_1", "Id_2"], ["Id_1"]],
                      "narrow-middle": [["Id_1", "Id_2"], ["Id_1"], ["Id_1", "Id_2"]]}[rel]
        if rng.random() < 0.3:
            using = ["Id_1"]
    dss = []
    for i in range(nds):
        if kind == "cross":
            ids = [f"Id_{'ab'[i]}"]
            idt = {ids[0]: "Integer"}
            idv = {ids[0]: [1, 2, 3]}
        else:
            ids, idt, idv = idsets[i], IDT, IDV
        nm = rng.randint(1, 2)
        meas = []
        for j in range(nm):
            t = rng.choice(["Integer", "Number", "Number", "String"])
            name = f"Me_{j + 1}" if overlap else f"Me_{j + 1}{'abc'[i]}"
            meas.append([name, t])
        keys = [()]
        for n in ids:
            keys = [k + (v,) for k in keys for v in idv[n]]
        rng.shuffle(keys)
        n = rng.randint(0, len(keys)) if rng.random() < 0.85 else len(keys)
        rows = [list(k) + [None if rng.random() < 0.15 else rng.choice(MV[t]) for _, t in meas] for k in keys[:n]]
        dss.append({"name": f"DS_{i + 1}", "alias": "abc"[i] if (overlap or kind == "cross" or rng.random() < 0.3) else None,
                    "ids": [[n, idt[n]] for n in ids], "meas": meas, "rows": rows})
    if overlap or kind == "cross":
        for d in dss:
            d["alias"] = d["alias"] or "abc"[dss.index(d)]
    body = make_body(rng, dss, overlap)
    case = {"kind": kind, "dss": dss, "using": using, "rel": rel, "overlap": overlap, "body": body}
    if rng.random() < 0.3:
        # an earlier statement of the same script joins the same operands under the same aliases with another body:
        # what one join consumes or renames must not leak into the next
        case["prelude"] = make_body(rng, dss, overlap)
    return case


def qualified_columns(dss):
    """column labels of the joined row before the body: plain name if unique among non-identifiers, else alias#name"""
    counts = {}
    for d in dss:
        for n, _ in d["meas"]:
            counts[n] = counts.get(n, 0) + 1
    cols = []
    for d in dss:
        for n, t in d["meas"]:
            cols.append((f"{d['alias']}#{n}" if counts[n] > 1 else n, t, d["name"], n))
    return cols


def make_body(rng, dss, overlap):
    cols = qualified_columns(dss)
    body = []
    numeric = [c for c in cols if c[1] in ("Integer", "Number")]
    if rng.random() < 0.3 and numeric:
        c = rng.choice(numeric)
        body.append(["filter", c[0], rng.choice([">", "<=", "<>"]), rng.choice([0, 1, 2])])
    calc_name = None
    if rng.random() < 0.35 and len(numeric) >= 1:
        a, b = rng.choice(numeric), rng.choice(numeric)
        calc_name = "Me_calc"
        body.append(["calc", calc_name, a[0], rng.choice(["+", "-", "*"]), b[0]])
    amb = [c for c in cols if "#" in c[0]]
    if overlap:
        # resolve the duplicated names: keep one per plain name, or drop the others, or rename them apart
        style = rng.choice(["keep", "drop", "rename"])
        byname = {}
        for c in amb:
            byname.setdefault(c[3], []).append(c)
        if style == "keep":
            sel = [rng.choice(v)[0] for v in byname.values()] + [c[0] for c in cols if "#" not in c[0] and rng.random() < 0.5]
            if calc_name and rng.random() < 0.7:
                sel.append(calc_name)
            body.append(["keep", sel])
        elif style == "drop":
            drops = []
            for v in byname.values():
                keepone = rng.choice(v)
                drops += [c[0] for c in v if c is not keepone]
            body.append(["drop", drops])
        else:
            pairs = []
            for v in byname.values():
                for i, c in enumerate(v):
                    pairs.append([c[0], f"{c[3]}_{c[0].split('#')[0]}"])
            body.append(["rename", pairs])
    else:
        r = rng.random()
        plain = [c[0] for c in cols]
        if r < 0.25 and len(plain) >= 2:
            body.append(["keep", rng.sample(plain, rng.randint(1, len(plain) - 1)) + ([calc_name] if calc_name else [])])
        elif r < 0.45 and len(plain) >= 2:
            body.append(["drop", rng.sample(plain, rng.randint(1, len(plain) - 1))])
        elif r < 0.6:
            c = rng.choice(plain)
            body.append(["rename", [[c, c + "_rn"]]])
    return body


def render(case):
    from vf import gen
    ops = ", ".join(d["name"] + (f" as {d['alias']}" if d["alias"] else "") for d in case["dss"])
    s = f"{case['kind']}_join({ops}"
    if case["using"]:
        s += " using " + ", ".join(case["using"])
    for b in case["body"]:
        if b[0] == "filter":
            s += f" filter {b[1]} {b[2]} {gen.lit(b[3])}"
        elif b[0] == "calc":
            s += f" calc {b[1]} := {b[2]} {b[3]} {b[4]}"
        elif b[0] in ("keep", "drop"):
            s += f" {b[0]} " + ", ".join(b[1])
        elif b[0] == "rename":
            s += " rename " + ", ".join(f"{a} to {c}" for a, c in b[1])
    return f"DS_r <- {s});"


def model_run(case):
    """-> (ids, {colname: ...}, rows list of dict) | 'UNSPEC'; meta"""
    from vf import model
    dss = case["dss"]
    cols = qualified_columns(dss)
    label = {(c[2], c[3]): c[0] for c in cols}
    kind = case["kind"]
    acc_ids = [n for n, _ in dss[0]["ids"]]
    acc = []
    for r in dss[0]["rows"]:
        row = {n: r[i] for i, n in enumerate(acc_ids)}
        for j, (n, _) in enumerate(dss[0]["meas"]):
            row[label[(dss[0]["name"], n)]] = model.num_in(r[len(acc_ids) + j])
        acc.append(row)
    meta = {"left_unmatched": False, "right_unmatched": False}
    for d in dss[1:]:
        ids = [n for n, _ in d["ids"]]
        common = [n for n in ids if n in acc_ids]
        if case["using"]:
            common = [n for n in case["using"] if n in ids and n in acc_ids]
        new_ids = [n for n in ids if n not in acc_ids]
        rrows = []
        for r in d["rows"]:
            row = {n: r[i] for i, n in enumerate(ids)}
            for j, (n, _) in enumerate(d["meas"]):
                row[label[(d["name"], n)]] = model.num_in(r[len(ids) + j])
            rrows.append(row)
        mcols = [label[(d["name"], n)] for n, _ in d["meas"]]
        acc_cols = [k for k in (acc[0].keys() if acc else []) if k not in acc_ids]
        out = []
        used_r = set()
        for a in acc:
            matches = [i for i, rr in enumerate(rrows) if all(rr[n] == a[n] for n in common)] if kind != "cross" else list(range(len(rrows)))
            if matches:
                for i in matches:
                    used_r.add(i)
                    nr = dict(a)
                    nr.update({k: v for k, v in rrows[i].items() if k not in common})
                    out.append(nr)
            else:
                meta["left_unmatched"] = True
                if kind in ("left", "full"):
                    nr = dict(a)
                    nr.update({c: None for c in mcols})
                    nr.update({n: None for n in new_ids})
                    out.append(nr)
        if len(used_r) < len(rrows):
            meta["right_unmatched"] = True
            if kind == "full":
                known_cols = set()
                for a in acc:
                    known_cols |= set(a)
                for i, rr in enumerate(rrows):
                    if i not in used_r:
                        nr = {k: None for k in known_cols}
                        nr.update(rr)
                        out.append(nr)
        if kind == "full" and not acc:
            pass
        acc = out
        acc_ids = acc_ids + new_ids
        if kind in ("left", "full") and new_ids:
            return "UNSPEC", meta
    # all labels present in every row (rows built from an empty accumulator may lack columns)
    all_cols = [c[0] for c in cols]
    for r in acc:
        for c in all_cols:
            r.setdefault(c, None)
    # duplicated identifier keys after the join would violate the data model: not generated on purpose
    names = list(all_cols)
    unspec = False
    for b in case["body"]:
        if b[0] == "filter":
            keep = []
            for r in acc:
                v = model.apply(b[2], [r[b[1]], model.num_in(b[3])])
                if v is model.UNSPEC:
                    unspec = True
                if v is True:
                    keep.append(r)
            acc = keep
        elif b[0] == "calc":
            for r in acc:
                v = model.apply(b[3], [r[b[2]], r[b[4]]])
                if v is model.UNSPEC or v is model.ERR:
                    unspec = True
                r[b[1]] = v
            names.append(b[1])
        elif b[0] == "keep":
            names = [n for n in names if n in b[1]]
        elif b[0] == "drop":
            names = [n for n in names if n not in b[1]]
        elif b[0] == "rename":
            m = dict(b[1])
            for r in acc:
                for a, c in m.items():
                    if a in r:
                        r[c] = r.pop(a)
            names = [m.get(n, n) for n in names]
    if unspec:
        return "UNSPEC", meta
    # expose unambiguous qualified names under their plain name
    plain = {}
    for n in names:
        p = n.split("#")[-1]
        plain.setdefault(p, []).append(n)
    if any(len(v) > 1 for v in plain.values()):
        return "AMBIGUOUS", meta
    final = {v[0]: p for p, v in plain.items()}
    rows = [{**{i: r[i] for i in acc_ids}, **{final[n]: r.get(n) for n in names}} for r in acc]
    return (acc_ids, [final[n] for n in names], rows), meta


def run_case(case, emit):
    from vf import eng, model
    dss, dfs = [], {}
    for d in case["dss"]:
        comps = [(n, t, "Identifier", False) for n, t in d["ids"]] + [(n, t, "Measure", True) for n, t in d["meas"]]
        dss.append(eng.mkds(d["name"], comps))
        dfs[d["name"]] = eng.mkdf([c[0] for c in comps], [tuple(r) for r in d["rows"]])
    if case.get("prelude") is not None and not case.get("_is_prelude"):
        # the prelude statement is judged on its own result DS_p, then the main statement as usual (same run)
        pre = dict(case, body=case["prelude"], _is_prelude=True)
        pre.pop("prelude")
        script = render(pre).replace("DS_r <-", "DS_p <-", 1) + " " + render(case)
    else:
        script = render(case)
    exp, meta = model_run(case)
    bodyk = "-".join(b[0] for b in case["body"]) or "none"
    if case.get("prelude") is not None:
        bodyk += "+after-" + ("-".join(b[0] for b in case["prelude"]) or "none")
    bucket = (f"{case['kind']}/{len(case['dss'])}/{case['rel']}/using={bool(case['using'])}/body={bodyk}/unmatched=L{int(meta['left_unmatched'])}R{int(meta['right_unmatched'])}/"
              f"overlap={case['overlap']}")
    status, res = eng.call(eng.run, script, eng.structures(*dss), dfs)
    if status == "exc":
        name, code, _ = eng.exc_info(res)
        if name in ("SemanticError", "VTLSyntaxError") or exp == "AMBIGUOUS":
            emit({"v": "skip", "why": f"generator_rejected {code}"})
        elif exp == "UNSPEC":
            emit({"v": "inc", "why": "model unspecified and engine raised"})
        else:
            import re
            m = re.search(r"(Binder|Parser|Catalog|Conversion|Out of Range|Invalid Input) Error", str(res))
            emit({"v": "viol", "b": bucket, "mech": f"valid-join-raises/{name}{':' + m.group(0) if m else ''}/{case['kind']}/n={len(case['dss'])}/body={bodyk}",
                  "what": f"{script} raised {name} {code}: {str(res)[:220]}", "case": case})
        return
    if exp in ("UNSPEC", "AMBIGUOUS"):
        emit({"v": "inc", "why": f"model {exp.lower()}"})
        return
    ids, names, rows = exp
    ds = res["DS_r"]
    got_ids = sorted(n for n, c in ds.components.items() if c.role.value == "Identifier")
    got_non = sorted(n for n, c in ds.components.items() if c.role.value != "Identifier")
    if got_ids != sorted(ids) or got_non != sorted(names):
        emit({"v": "viol", "b": bucket, "mech": f"result-components/{case['kind']}/body={bodyk}",
              "what": f"{script}: components ids={got_ids} others={got_non}, expected ids={sorted(ids)} others={sorted(names)}", "case": case})
        return
    order = list(ids) + list(names)
    got = eng.rows_of(ds.data, order)
    want = [tuple(model.out(r[n]) for n in order) for r in rows]
    d = eng.same_rowset(got, want, len(ids), tol=1e-7)
    if d:
        emit({"v": "viol", "b": bucket, "mech": f"wrong-datapoints/{case['kind']}/n={len(case['dss'])}/{case['rel']}/using={bool(case['using'])}",
              "what": f"{script}: {d}", "case": case})
    else:
        trivial = not any(x["rows"] for x in case["dss"])
        emit({"v": "held", "b": "trivial-empty-inputs" if trivial else bucket, "sample": {"script": script, "rows_out": len(want)}})


def run_shard(spec, emit):
    from vf import eng
    rng = random.Random(f"C04-{spec['seed']}-{spec['shard']}")
    bud = eng.Budget(spec.get("budget_s", 100 if spec["tier"] == "quick" else 2400))
    for _ in range(spec["n"]):
        if not bud.ok():
            emit({"v": "inc", "why": "cut by wall-clock budget"})
            break
        run_case(make_case(rng), emit)


def replay(case, emit):
    run_case(case, emit)
