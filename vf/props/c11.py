"""C11 — semantic type rules follow the documented implicit-cast table.
Exhaustive runtime monitor over the finite domain: 9 types x 9 types for (a) the promotion functions, (b) every
operator class of the engine's registries, (c) one-line scripts through semantic_analysis() at scalar, component and
dataset level. The truth table is parsed from docs/data_types.rst of the current tree."""
import itertools
import re

ID = "C11"
LEVEL = "exploration"
EXHAUSTIVE = True
RULE = ("all 9x9 operand type pairs (String Number Integer Boolean Time Date Time_Period Duration Null) and all 9 unary operand "
        "types: (a) check_binary/unary_implicit_promotion vs binary/unary_implicit_promotion for every type_to_check and "
        "return_type (contract: the check accepts <=> the promotion does not raise; a fixed return type is returned); (b) for "
        "every operator class in the BINARY/UNARY registries: validate_type_compatibility <=> type_validation does not raise, "
        "acceptance <=> the closures of the documented implicit-cast table meet in a type the operator admits, commutative "
        "operators symmetric in acceptance and result type; (c) one-line scripts per operator template through "
        "semantic_analysis() at scalar, component and dataset level: accepted <=> documented, result type as documented "
        "(arithmetic Integer/Number, comparison Boolean, concatenation String, boolean Boolean), level-independent. "
        "Bucket = (part, operator, left type, right type); one evaluation = one accept/result-type decision.")
ASSUMPTIONS = ["operator admitted types: arithmetic Number, string String, boolean Boolean, comparison any common type (VTL manual)",
               "Null is compatible with every type (docs: 'Null to any type')"]
FLOORS = {"quick": (8000, 800), "thorough": (8000, 800)}
NSH = 16
DOC2ENG = {"String": "String", "Number": "Number", "Integer": "Integer", "Boolean": "Boolean", "Time": "TimeInterval", "Date": "Date",
           "Time_Period": "TimePeriod", "Duration": "Duration"}
VTLNAME = {v: k for k, v in DOC2ENG.items()}


def shards(tier, seed):
    return [{"shard": i, "nshards": NSH} for i in range(NSH)]


def docs_closure():
    """{engine type name: set(engine type names)} from the 'Implicit Casting' list-table of docs/data_types.rst"""
    import os
    import vboot
    txt = open(os.path.join(vboot.REPO, "docs", "data_types.rst")).read()
    sec = txt.split("Implicit Casting (Automatic)", 1)[1].split("Key rules:", 1)[0]
    rows = re.split(r"\n    \* - ", sec)[1:]
    header = [c.strip() for c in re.split(r"\n      - ", rows[0])]
    cols = header[1:]
    out = {}
    for r in rows[1:]:
        cells = [c.strip() for c in re.split(r"\n      - ", r)]
        name = cells[0].strip("*").strip()
        tos = {DOC2ENG[c] for c, v in zip(cols, cells[1:]) if "|y|" in v}
        out[DOC2ENG[name]] = tos
    out["Null"] = set(DOC2ENG.values()) | {"Null"}
    return out


def expected_accept(closure, left, right, admitted=None):
    common = closure[left] & closure[right]
    if admitted is None:
        return bool(common - {"Null"}) or left == "Null" or right == "Null" or bool(common)
    return admitted in common


def part_functions(emit, closure):
    import vtlengine.DataTypes as DT
    T = {n: getattr(DT, n) for n in list(DOC2ENG.values()) + ["Null"]}
    names = list(T)
    opts = [None] + names
    for l, r in itertools.product(names, names):
        for ttc in opts:
            for rt in opts:
                chk = DT.check_binary_implicit_promotion(T[l], T[r], T[ttc] if ttc else None, T[rt] if rt else None)
                try:
                    res = DT.binary_implicit_promotion(T[l], T[r], T[ttc] if ttc else None, T[rt] if rt else None)
                    raised = False
                except Exception as e:  # noqa: BLE001
                    res, raised = e, True
                b = f"functions/binary/{l}/{r}"
                if chk == raised:
                    emit({"v": "viol", "b": b, "mech": f"functions/check-disagrees-with-promotion/binary/{'accepts' if chk else 'rejects'}",
                          "what": f"check_binary_implicit_promotion({l},{r},{ttc},{rt}) = {chk} but binary_implicit_promotion {'raised ' + type(res).__name__ if raised else 'returned ' + res.__name__}",
                          "case": {"part": "functions", "l": l, "r": r, "ttc": ttc, "rt": rt}})
                    continue
                if not raised and rt and res is not T[rt]:
                    emit({"v": "viol", "b": b, "mech": "functions/fixed-return-type-not-returned/binary",
                          "what": f"binary_implicit_promotion({l},{r},{ttc},{rt}) returned {res.__name__}", "case": {"part": "functions", "l": l, "r": r, "ttc": ttc, "rt": rt}})
                    continue
                exp = expected_accept(closure, l, r, ttc)
                if chk != exp:
                    emit({"v": "viol", "b": b, "mech": f"functions/acceptance-differs-from-docs-table/binary/{'accepts' if chk else 'rejects'}/{l}-{r}/check={ttc}",
                          "what": f"({l},{r}) with operator type {ttc}: engine {'accepts' if chk else 'rejects'}, documented closures {sorted(closure[l])} / {sorted(closure[r])}",
                          "case": {"part": "functions", "l": l, "r": r, "ttc": ttc, "rt": rt}})
                    continue
                emit({"v": "held", "b": b})
    for o in names:
        for ttc in opts:
            for rt in opts:
                chk = DT.check_unary_implicit_promotion(T[o], T[ttc] if ttc else None, T[rt] if rt else None)
                try:
                    res = DT.unary_implicit_promotion(T[o], T[ttc] if ttc else None, T[rt] if rt else None)
                    raised = False
                except Exception as e:  # noqa: BLE001
                    res, raised = e, True
                b = f"functions/unary/{o}"
                exp = True if ttc is None else (ttc in closure[o])
                if chk == raised:
                    emit({"v": "viol", "b": b, "mech": "functions/check-disagrees-with-promotion/unary", "what": f"check_unary({o},{ttc},{rt})={chk}, promotion raised={raised}",
                          "case": {"part": "functions", "o": o, "ttc": ttc, "rt": rt}})
                elif chk != exp:
                    emit({"v": "viol", "b": b, "mech": f"functions/acceptance-differs-from-docs-table/unary/{o}/check={ttc}", "what": f"unary {o} with operator type {ttc}: engine {chk}, docs {exp}",
                          "case": {"part": "functions", "o": o, "ttc": ttc, "rt": rt}})
                elif not raised and rt and res is not T[rt]:
                    emit({"v": "viol", "b": b, "mech": "functions/fixed-return-type-not-returned/unary", "what": f"unary_implicit_promotion({o},{ttc},{rt}) returned {res.__name__}",
                          "case": {"part": "functions", "o": o, "ttc": ttc, "rt": rt}})
                else:
                    emit({"v": "held", "b": b, "sample": {"part": "functions", "operand": o, "type_to_check": ttc, "accepted": chk}})


COMMUTATIVE = {"+", "*", "and", "or", "xor", "=", "<>"}


def part_registries(emit, closure, shard, nshards):
    import vtlengine.DataTypes as DT
    from vtlengine.Utils import BINARY_MAPPING, UNARY_MAPPING
    T = {n: getattr(DT, n) for n in list(DOC2ENG.values()) + ["Null"]}
    names = list(T)
    for i, (tok, cls) in enumerate(sorted(BINARY_MAPPING.items(), key=lambda kv: str(kv[0]))):
        if i % nshards != shard or not hasattr(cls, "type_validation"):
            continue
        ttc = getattr(cls, "type_to_check", None)
        res = {}
        for l, r in itertools.product(names, names):
            b = f"registry/{tok}/{l}/{r}"
            try:
                chk = cls.validate_type_compatibility(T[l], T[r])
            except Exception as e:  # noqa: BLE001
                chk = e
            try:
                rt = cls.type_validation(T[l], T[r])
                raised = False
            except Exception as e:  # noqa: BLE001
                rt, raised = e, True
            res[(l, r)] = None if raised else rt
            case = {"part": "registry", "op": str(tok), "l": l, "r": r}
            if isinstance(chk, Exception):
                emit({"v": "inc", "why": f"validate_type_compatibility of {tok} is not a pure type predicate ({type(chk).__name__})"})
                continue
            import vtlengine.Operators as OPS
            generic = getattr(cls.validate_type_compatibility, "__func__", None) is getattr(OPS.Binary.validate_type_compatibility, "__func__", object())
            # an operator may add a restriction of its own on top of the promotion rule (its check is then stricter);
            # what must never happen is a check that accepts a pair for which no result type can be computed
            if (bool(chk) and raised) or (generic and bool(chk) == raised):
                emit({"v": "viol", "b": b, "mech": f"registry/check-disagrees-with-promotion/{tok}", "what": f"{cls.__name__}: validate_type_compatibility({l},{r})={chk} but type_validation raised={raised}", "case": case})
                continue
            if ttc is not None and ttc.__name__ in closure and generic:
                exp = expected_accept(closure, l, r, ttc.__name__)
                if bool(chk) != exp:
                    emit({"v": "viol", "b": b, "mech": f"registry/acceptance-differs-from-docs-table/{tok}/{l}-{r}", "what": f"{cls.__name__} ({tok}, admits {ttc.__name__}): ({l},{r}) engine {bool(chk)}, docs {exp}", "case": case})
                    continue
            emit({"v": "held", "b": b})
        if str(tok) in COMMUTATIVE:
            for l, r in itertools.combinations(names, 2):
                a, c = res.get((l, r)), res.get((r, l))
                b = f"registry-symmetry/{tok}/{l}/{r}"
                if (a is None) != (c is None) or (a is not None and a is not c):
                    emit({"v": "viol", "b": b, "mech": f"registry/commutative-operator-asymmetric/{tok}",
                          "what": f"{cls.__name__} ({tok}): ({l},{r}) -> {getattr(a, '__name__', a)} but ({r},{l}) -> {getattr(c, '__name__', c)}", "case": {"part": "registry", "op": str(tok), "l": l, "r": r}})
                else:
                    emit({"v": "held", "b": b})
    for i, (tok, cls) in enumerate(sorted(UNARY_MAPPING.items(), key=lambda kv: str(kv[0]))):
        if i % nshards != shard or not hasattr(cls, "type_validation"):
            continue
        ttc = getattr(cls, "type_to_check", None)
        for o in names:
            b = f"registry/{tok}/{o}"
            try:
                chk = cls.validate_type_compatibility(T[o])
                try:
                    cls.type_validation(T[o])
                    raised = False
                except Exception:  # noqa: BLE001
                    raised = True
            except Exception as e:  # noqa: BLE001
                emit({"v": "inc", "why": f"unary {tok}: {type(e).__name__}"})
                continue
            case = {"part": "registry", "op": str(tok), "o": o}
            if bool(chk) == raised:
                emit({"v": "viol", "b": b, "mech": f"registry/check-disagrees-with-promotion/{tok}", "what": f"{cls.__name__}: validate({o})={chk}, type_validation raised={raised}", "case": case})
            elif ttc is not None and ttc.__name__ in closure and bool(chk) != (ttc.__name__ in closure[o]):
                emit({"v": "viol", "b": b, "mech": f"registry/acceptance-differs-from-docs-table/{tok}/{o}", "what": f"{cls.__name__} ({tok}, admits {ttc.__name__}): {o} engine {bool(chk)}", "case": case})
            else:
                emit({"v": "held", "b": b})


# (template, admitted type or None = any common type, result kind, commutative)
TEMPLATES = [("{a} + {b}", "Number", "arith", True), ("{a} - {b}", "Number", "arith", False), ("{a} * {b}", "Number", "arith", True), ("{a} / {b}", "Number", "div", False),
             ("mod({a}, {b})", "Number", "arith", False), ("{a} || {b}", "String", "String", False), ("{a} and {b}", "Boolean", "Boolean", True),
             ("{a} or {b}", "Boolean", "Boolean", True), ("{a} xor {b}", "Boolean", "Boolean", True), ("{a} = {b}", None, "Boolean", True),
             ("{a} <> {b}", None, "Boolean", True), ("{a} < {b}", None, "Boolean", False), ("{a} >= {b}", None, "Boolean", False),
             ("nvl({a}, {b})", None, "any", False)]
UNARY_T = [("abs({a})", "Number", "same"), ("- {a}", "Number", "same"), ("ceil({a})", "Number", "Integer"), ("exp({a})", "Number", "Number"), ("sqrt({a})", "Number", "Number"),
           ("not {a}", "Boolean", "Boolean"), ("length({a})", "String", "Integer"), ("upper({a})", "String", "String"), ("isnull({a})", None, "Boolean")]


def part_scripts(emit, closure, shard, nshards):
    from vf import eng
    types = list(DOC2ENG)
    k = 0
    for t1, t2 in itertools.product(types, types):
        k += 1
        if k % nshards != shard:
            continue
        e1, e2 = DOC2ENG[t1], DOC2ENG[t2]
        comps = [("Id_1", "Integer", "Identifier", False), ("Me_1", t1, "Measure", True), ("Me_2", t2, "Measure", True)]
        one1 = [("Id_1", "Integer", "Identifier", False), ("Me_1", t1, "Measure", True)]
        one2 = [("Id_1", "Integer", "Identifier", False), ("Me_1", t2, "Measure", True)]
        st = eng.structures(eng.mkds("DS_1", comps), eng.mkds("DS_A", one1), eng.mkds("DS_B", one2), scalars=[("sc_a", t1), ("sc_b", t2)])
        for tmpl, admitted, kind, comm in TEMPLATES:
            exp = expected_accept(closure, e1, e2, admitted)
            got = {}
            for level, script in (("component", f"DS_r <- DS_1[calc Me_3 := {tmpl.format(a='Me_1', b='Me_2')}];"),
                                  ("dataset", f"DS_r <- {tmpl.format(a='DS_A', b='DS_B')};"),
                                  ("scalar", f"DS_r <- {tmpl.format(a='sc_a', b='sc_b')};")):
                s, r = eng.call(eng.semantic_analysis, script, st)
                op = tmpl.replace("{a}", "").replace("{b}", "").strip(" (),")
                b = f"script/{op}/{t1}/{t2}/{level}"
                case = {"part": "script", "script": script, "t1": t1, "t2": t2}
                if s == "exc" and not (type(r).__name__ == "SemanticError"):
                    emit({"v": "viol", "b": b, "mech": f"script/raises-{type(r).__name__}/{op}/{level}", "what": f"{script} with ({t1},{t2}): {type(r).__name__}: {str(r)[:120]}", "case": case})
                    continue
                acc = s == "ok"
                got[level] = acc
                if acc != exp:
                    emit({"v": "viol", "b": b, "mech": f"script/acceptance-differs-from-docs-table/{op}/{level}/{'accepts' if acc else 'rejects'}/{t1}-{t2}",
                          "what": f"{script} with ({t1},{t2}): semantic analysis {'accepts' if acc else 'rejects'}; documented closures {sorted(closure[e1])} / {sorted(closure[e2])}, operator admits {admitted or 'any common type'}",
                          "case": case})
                    continue
                if acc:
                    obj = r["DS_r"]
                    if level == "scalar":
                        rt = obj.data_type.__name__
                    elif level == "component":
                        rt = obj.components["Me_3"].data_type.__name__
                    else:
                        ms = [c for c in obj.components.values() if c.role.value == "Measure"]
                        rt = ms[0].data_type.__name__ if len(ms) == 1 else "?"
                    want = {"arith": "Integer" if (e1, e2) == ("Integer", "Integer") else "Number", "div": "Number"}.get(kind, kind)
                    if kind != "any" and rt != want and not (kind == "div" and level == "scalar" and rt == "Integer"):
                        emit({"v": "viol", "b": b, "mech": f"script/result-type/{op}/{level}/{t1}-{t2}", "what": f"{script} with ({t1},{t2}): result type {rt}, documented {want}", "case": case})
                        continue
                emit({"v": "held", "b": b, "sample": {"script": script, "types": [t1, t2], "accepted": acc}})
        if t2 == types[0]:
            for tmpl, admitted, kind in UNARY_T:
                exp = True if admitted is None else admitted in closure[e1]
                for level, script in (("component", f"DS_r <- DS_1[calc Me_3 := {tmpl.format(a='Me_1')}];"), ("dataset", f"DS_r <- {tmpl.format(a='DS_A')};"), ("scalar", f"DS_r <- {tmpl.format(a='sc_a')};")):
                    s, r = eng.call(eng.semantic_analysis, script, st)
                    op = tmpl.replace("{a}", "").strip(" (),")
                    b = f"script/{op}/{t1}/{level}"
                    acc = s == "ok"
                    if s == "exc" and type(r).__name__ != "SemanticError":
                        emit({"v": "viol", "b": b, "mech": f"script/raises-{type(r).__name__}/{op}/{level}", "what": f"{script} ({t1}): {type(r).__name__}", "case": {"part": "script", "script": script, "t1": t1}})
                    elif acc != exp:
                        emit({"v": "viol", "b": b, "mech": f"script/acceptance-differs-from-docs-table/{op}/{level}/{'accepts' if acc else 'rejects'}/{t1}",
                              "what": f"{script} with {t1}: semantic analysis {'accepts' if acc else 'rejects'}, documented closure {sorted(closure[e1])}, operator admits {admitted}", "case": {"part": "script", "script": script, "t1": t1}})
                    else:
                        emit({"v": "held", "b": b})


# operators that exist both as component-level and as dataset-level operators (the date-part extractors do not)
LEVEL_T = ['dateadd({a}, 1, "M")', "round({a}, 1)", "trunc({a})", "ln({a})", "substr({a}, 1, 2)", "trim({a})", "floor({a})", 'instr({a}, "a")', "between({a}, 1, 5)", "ceil({a})",
           'replace({a}, "a", "b")', 'cast({a}, string)']


def part_levels(emit, shard, nshards):
    """model-free: an operator accepts an operand type at component level iff it accepts it at dataset level; the result type of a
    multi-branch case does not depend on the order of its branches"""
    from vf import eng
    types = list(DOC2ENG)
    for k, t1 in enumerate(types):
        if k % nshards != shard:
            continue
        one1 = [("Id_1", "Integer", "Identifier", False), ("Me_1", t1, "Measure", True)]
        st = eng.structures(eng.mkds("DS_A", one1))
        for tmpl in LEVEL_T:
            op = tmpl.split("(")[0]
            res = {}
            for level, script in (("component", f"DS_r <- DS_A[calc Me_3 := {tmpl.format(a='Me_1')}];"), ("dataset", f"DS_r <- {tmpl.format(a='DS_A')};")):
                s_, r = eng.call(eng.semantic_analysis, script, st)
                res[level] = "accepts" if s_ == "ok" else ("rejects" if type(r).__name__ in ("SemanticError", "RunTimeError") else f"raises-{type(r).__name__}")
            b = f"levels/{op}/{t1}"
            if res["component"] != res["dataset"] and "raises" not in res["component"] + res["dataset"]:
                emit({"v": "viol", "b": b, "mech": f"levels-disagree/{op}/{t1}/component-{res['component']}-dataset-{res['dataset']}",
                      "what": f"{tmpl} on a {t1} operand: component level {res['component']}, dataset level {res['dataset']}", "case": {"part": "levels", "tmpl": tmpl, "t1": t1}})
            else:
                emit({"v": "held", "b": b})
        for t2 in types:
            comps = [("Id_1", "Integer", "Identifier", False), ("Me_1", t1, "Measure", True), ("Me_2", t2, "Measure", True)]
            st2 = eng.structures(eng.mkds("DS_1", comps))
            out = {}
            for name, (x, y) in (("ab", ("Me_1", "Me_2")), ("ba", ("Me_2", "Me_1"))):
                script = f"DS_r <- DS_1[calc Me_3 := case when Id_1 > 2 then {x} when Id_1 > 1 then {y} else null];"
                s_, r = eng.call(eng.semantic_analysis, script, st2)
                out[name] = r["DS_r"].components["Me_3"].data_type.__name__ if s_ == "ok" else f"rejected:{type(r).__name__}"
            b = f"case-branch-order/{t1}/{t2}"
            if out["ab"] != out["ba"]:
                emit({"v": "viol", "b": b, "mech": f"case-result-depends-on-branch-order/{min(t1, t2)}-{max(t1, t2)}",
                      "what": f"case when c1 then <{t1}> when c2 then <{t2}> else null is {out['ab']}; with the two branches swapped it is {out['ba']}", "case": {"part": "case-order", "t1": t1, "t2": t2}})
            else:
                emit({"v": "held", "b": b})


def run_shard(spec, emit):
    from vf import eng  # noqa: F401  (boots the engine)
    closure = docs_closure()
    if spec["shard"] == 0:
        emit({"v": "info", "k": "documented_implicit_closure", "val": {k: sorted(v) for k, v in closure.items()}})
        part_functions(emit, closure)
    part_registries(emit, closure, spec["shard"], spec["nshards"])
    part_scripts(emit, closure, spec["shard"], spec["nshards"])
    part_levels(emit, spec["shard"], spec["nshards"])


def replay(case, emit):
    emit({"v": "inc", "why": "C11 is exhaustive over a finite domain: re-run the check; the case names the point: " + str(case)[:200]})
