"""C10 — results conform to the structure predicted by semantic analysis.
Rider monitor: every successful run() of the corpus (and of the generated workloads) is followed by
semantic_analysis() of the same script on the same structures; names, components (names, roles, types, nullability),
column order, per-value type conformance, identifier non-nullness/uniqueness and the at-most-one-row rule are compared."""
import random

ID = "C10"
LEVEL = "exploration"
RULE = ("every corpus script that runs (upstream tests/**/data/vtl with their inputs) and generated scripts of the operator "
        "generators; one evaluation = one returned dataset/scalar checked against semantic_analysis() of the same call: "
        "name, component names/roles/types/nullability and order, DataFrame column order, every non-null value conforms to "
        "the component type (Date/Time_Period/Time/Duration by their documented output patterns), identifiers non-null and "
        "unique, non-nullable components non-null, at most one datapoint without identifiers. Bucket = (workload source, "
        "sorted type set, has identifiers, empty, return_only_persistent); datasets with zero rows count as trivial.")
ASSUMPTIONS = ["corpus cases that the engine rejects (expected-error tests, missing optional pysdmx xml extra) are skipped and counted"]
FLOORS = {"quick": (300, 25), "thorough": (2500, 60)}
NSH = 16


def shards(tier, seed):
    return [{"shard": i, "nshards": NSH} for i in range(NSH)]


def check_result(res, predicted, source, emit, case, tp_format="vtl", rop=True):
    from vf import conform
    from vtlengine.Model import Dataset, Scalar
    if set(res) - set(predicted):
        emit({"v": "viol", "b": f"{source}/names", "mech": "result-not-predicted-by-semantic-analysis",
              "what": f"run() returned {sorted(set(res) - set(predicted))[:5]} that semantic_analysis() does not report",
              "case": case})
    for name, obj in res.items():
        pred = predicted.get(name)
        if isinstance(obj, Scalar):
            probs = []
            if pred is not None and not isinstance(pred, Scalar):
                probs.append(("kind", f"{name}: scalar returned, dataset predicted"))
            elif pred is not None and pred.data_type.__name__ != obj.data_type.__name__ and pred.data_type.__name__ != "Null":
                probs.append(("scalar-type", f"{name}: {obj.data_type.__name__} vs predicted {pred.data_type.__name__}"))
            if not conform.value_ok(obj.value, obj.data_type.__name__, tp_format):
                probs.append((f"value-type/{obj.data_type.__name__}", f"scalar {name} = {obj.value!r}"))
            bucket = f"{source}/scalar/{obj.data_type.__name__}"
        elif isinstance(obj, Dataset):
            if pred is not None and not isinstance(pred, Dataset):
                probs = [("kind", f"{name}: dataset returned, scalar predicted")]
            else:
                probs = conform.check_dataset(name, obj, pred, tp_format)
            types = "+".join(sorted({c.data_type.__name__ for c in obj.components.values()}))
            has_ids = any(c.role.value == "Identifier" for c in obj.components.values())
            empty = obj.data is None or len(obj.data) == 0
            bucket = f"{source}/{types}/ids={has_ids}/rop={rop}" if not empty else "trivial-empty"
        else:
            probs = [("kind", f"{name}: unexpected object {type(obj).__name__}")]
            bucket = f"{source}/other"
        if probs:
            cid = (case.get("id") or case.get("gen") or "") if isinstance(case, dict) else ""
            mech = "shape/" + probs[0][0]
            if probs[0][0] == "null-in-non-nullable" and name.startswith("DS_nvl"):
                mech += "/nvl-with-nullable-replacement"        # results named DS_nvl* come from the nvl statements of the type-mix workload
            if isinstance(case, dict) and case.get("case_variant_names") and probs[0][0] == "column-order-or-set":
                mech += "/script-with-case-variant-names"           # the systemic C29 defect seen through a corpus script
            if source == "gen:viral-chain" and probs[0][0] == "column-order-or-set" and isinstance(obj, Dataset) and obj.data is not None:
                missing = sorted(set(obj.components) - set(obj.data.columns))
                extra = sorted(set(obj.data.columns) - set(obj.components))
                mech += "/viral-chain/" + ("missing:" + "+".join(missing) if missing else "extra:" + "+".join(extra) if extra else "order")
            if source == "gen:validation" and probs[0][0] == "null-in-non-nullable":
                # every statement of the validation workload has its own result name (V1 .. V11)
                mech += "/validation:" + {"V10": "lag-over-non-nullable-measure", "V11": "ungrouped-aggr"}.get(name, name)
            emit({"v": "viol", "b": bucket, "mech": mech, "what": f"[{source} {cid}] " + "; ".join(p[1] for p in probs[:3]),
                  "case": case})
        else:
            rec = {"v": "held", "b": bucket}
            if isinstance(obj, Dataset) and obj.data is not None and len(obj.data):
                rec["sample"] = {"source": source, "case": case.get("id") if isinstance(case, dict) else None, "dataset": name,
                                 "components": conform.struct_of(obj)[:8], "rows": len(obj.data)}
            emit(rec)


def run_corpus_case(c, emit, rop):
    from vf import corpus, eng
    try:
        kw = corpus.run_kwargs(c)
    except Exception as e:  # noqa: BLE001
        emit({"v": "skip", "why": f"corpus load {type(e).__name__}"})
        return
    status, res = eng.call(eng.run, return_only_persistent=rop, **kw)
    if status == "exc":
        emit({"v": "skip", "why": "corpus case rejected: " + type(res).__name__})
        return
    kw2 = {k: v for k, v in kw.items() if k != "datapoints"}
    s2, pred = eng.call(eng.semantic_analysis, **kw2)
    if s2 == "exc":
        emit({"v": "viol", "b": f"corpus/{c['area']}", "mech": "semantic-analysis-rejects-what-run-accepts",
              "what": f"{c['id']}: semantic_analysis raised {type(pred).__name__}: {str(pred)[:160]}", "case": {"id": c["id"], "corpus": c, "rop": rop}})
        return
    # names of the script and of the input structures that differ only in letter case: anomalies of such cases belong to C29
    import re
    words = set(re.findall(r"[A-Za-z_][A-Za-z0-9_]*", kw["script"] if isinstance(kw.get("script"), str) else ""))
    try:
        sts = kw.get("data_structures") or []
        for s_ in (sts if isinstance(sts, list) else [sts]):
            for d in (s_.get("datasets", []) if isinstance(s_, dict) else []):
                words |= {x.get("name") for x in d.get("DataStructure", []) if x.get("name")}
    except Exception:  # noqa: BLE001
        pass
    cv = len({w.lower() for w in words}) < len(words)
    check_result(res, pred, f"corpus:{c['area'].split('/')[0]}", emit, {"id": c["id"], "corpus": c, "rop": rop, "case_variant_names": cv}, rop=rop)


def run_shard(spec, emit):
    from vf import corpus, eng
    bud = eng.Budget(spec.get("budget_s", 100 if spec["tier"] == "quick" else 2400))
    rng = random.Random(f"C10-{spec['seed']}-{spec['shard']}")
    try:
        from vf import workloads
    except ImportError:
        workloads = None
    n = 36 if spec["tier"] == "quick" else 600
    for case in (workloads.generated(rng, n) if workloads else []):
        if not bud.ok():
            break
        status, res = eng.call(eng.run, case["script"], case["structures"], case["datapoints"](), return_only_persistent=False)
        if status == "exc":
            emit({"v": "skip", "why": "generated case rejected: " + type(res).__name__})
            continue
        s2, pred = eng.call(eng.semantic_analysis, case["script"], case["structures"])
        if s2 == "exc":
            emit({"v": "viol", "b": f"gen/{case['family']}", "mech": "semantic-analysis-rejects-what-run-accepts",
                  "what": f"{case['script']}: {type(pred).__name__}", "case": case["replay"]})
            continue
        check_result(res, pred, f"gen:{case['family']}", emit, case["replay"], rop=False)

    cs = [c for c in corpus.scan() if spec["tier"] == "thorough" or not c["area"].startswith("BigProjects")]
    mine = [c for i, c in enumerate(cs) if i % spec["nshards"] == spec["shard"]]
    if spec["tier"] == "quick":
        rng.shuffle(mine)
        mine = mine[:len(mine) // 4]
    for c in mine:
        if not bud.ok():
            emit({"v": "inc", "why": "cut by wall-clock budget"})
            break
        run_corpus_case(c, emit, rop=rng.random() < 0.3)

def replay(case, emit):
    if "corpus" in case:
        run_corpus_case(case["corpus"], emit, case.get("rop", True))
    else:
        from vf import workloads
        workloads.replay_c10(case, emit, check_result)
