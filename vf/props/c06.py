"""C06 — analytic (window) functions compute over the specified partitions and frames.
Differential monitor against a window model (partition, total order, rows/range frame, function) plus a metamorphic
replica of every case on permuted input rows."""
import math
import random

ID = "C06"
LEVEL = "exploration"
RULE = ("sum avg count min max median stddev_pop stddev_samp var_pop var_samp first_value last_value lag lead rank "
        "ratio_to_report, at dataset level and inside calc, with partition by (none / one / two identifiers), order by covering "
        "every non-partition identifier (asc or desc: total order), explicit frames 'data points between' and 'range between' "
        "with offsets 0-3 / unbounded / current data point in every combination (including both bounds preceding or both "
        "following), and partition-only windows; inputs of 0-14 datapoints with nulls; every case is also executed on two row "
        "permutations of its input. Oracle: window model (sorted partition, frame, function; nulls ignored by aggregates; "
        "first/last take the frame's first/last datapoint); conventions left open (median of an even frame, sample statistics "
        "of one value, count over only nulls, default frame when the window clause is omitted) are UNSPEC. "
        "Bucket = (function, level, partition kind, order direction, frame shape); one evaluation = one result compared.")
ASSUMPTIONS = ["range frames are generated only with a single ascending Integer order key"]
FLOORS = {"quick": (300, 70), "thorough": (7000, 250)}
NSH = 16
N = {"quick": 30, "thorough": 800}
AGG = ["sum", "avg", "count", "min", "max", "median", "stddev_pop", "stddev_samp", "var_pop", "var_samp"]
FUNCS = AGG + ["first_value", "last_value", "lag", "lead", "rank", "ratio_to_report"]


def shards(tier, seed):
    return [{"shard": i, "nshards": NSH, "n": N[tier]} for i in range(NSH)]


def bound(rng):
    r = rng.random()
    if r < 0.2:
        return ["unbounded", "preceding"]
    if r < 0.35:
        return ["unbounded", "following"]
    if r < 0.5:
        return ["current", None]
    return [rng.randint(0, 3), rng.choice(["preceding", "following"])]


def bpos(b):
    """bound -> offset relative to the current row (None = unbounded)"""
    if b[0] == "unbounded":
        return -math.inf if b[1] == "preceding" else math.inf
    if b[0] == "current":
        return 0
    return -b[0] if b[1] == "preceding" else b[0]


def make_case(rng):
    fn = rng.choice(FUNCS)
    level = "calc" if fn == "rank" else rng.choice(["calc", "dataset"])
    three = rng.random() < 0.3
    ids = [["Id_1", "Integer"], ["Id_2", "String"]] + ([["Id_3", "Integer"]] if three else [])
    pools = {"Id_1": [1, 2, 3, 4, 5, 7], "Id_2": ["a", "b"], "Id_3": [10, 20]}
    keys = [()]
    for n, _ in ids:
        keys = [k + (v,) for k in keys for v in pools[n]]
    rng.shuffle(keys)
    nrows = rng.randint(0, min(14, len(keys)))
    mt = rng.choice(["Integer", "Number"])
    vals = {"Integer": [0, 1, 2, 3, 5, -4, 10], "Number": [0.5, 1.5, 2.25, -3.75, 10.0, 0.0]}[mt]
    nullp = rng.choice([0.0, 0.2])
    rows = [list(k) + [None if rng.random() < nullp else rng.choice(vals)] for k in keys[:nrows]]
    idn = [n for n, _ in ids]
    pk = rng.choice(["none", "one", "one", "two"]) if three else rng.choice(["none", "one", "one"])
    if fn == "ratio_to_report" and pk == "none":
        pk = "one"          # the grammar requires a partition for a window without order by
    part = [] if pk == "none" else (["Id_2"] if pk == "one" else ["Id_2", "Id_3"])
    order = [n for n in idn if n not in part]
    direction = rng.choice(["asc", "asc", "desc"])
    frame = None
    if fn in AGG + ["first_value", "last_value"]:
        # windows without order by are outside the property (it speaks about total orderings): always ordered + explicit frame
        kind = rng.choice(["rows", "rows", "rows", "range"])
        if kind == "partition-only":
            frame = None
            order_used = [] if fn in AGG else order
            if fn in ("first_value", "last_value"):
                kind = "rows"
        if kind == "range":
            if order != ["Id_1"] or direction != "asc":
                kind = "rows"
        if kind in ("rows", "range"):
            lo, hi = bound(rng), bound(rng)
            if bpos(lo) > bpos(hi):
                lo, hi = hi, lo
            if bpos(lo) == math.inf or bpos(hi) == -math.inf:
                lo, hi = ["unbounded", "preceding"], ["current", None]
            frame = [kind, lo, hi]
    partition_only = fn in AGG and frame is None
    return {"fn": fn, "level": level, "ids": ids, "mt": mt, "rows": rows, "part": part, "order": [] if (partition_only or fn == "ratio_to_report") else order,
            "dir": direction, "frame": frame, "n": rng.choice([0, 1, 1, 2, 3]), "permseed": rng.randrange(1 << 30)}


def render(case):
    def b(x):
        if x[0] == "unbounded":
            return f"unbounded {x[1]}"
        if x[0] == "current":
            return "current data point"
        return f"{x[0]} {x[1]}"
    parts = []
    if case["part"]:
        parts.append("partition by " + ", ".join(case["part"]))
    if case["order"]:
        parts.append("order by " + ", ".join(f"{o} {case['dir']}" for o in case["order"]))
    if case["frame"]:
        k, lo, hi = case["frame"]
        parts.append(f"{'data points' if k == 'rows' else 'range'} between {b(lo)} and {b(hi)}")
    over = "over (" + " ".join(parts) + ")"
    fn = case["fn"]
    operand = "Me_1" if case["level"] == "calc" else "DS_1"
    if fn in ("lag", "lead"):
        call = f"{fn}({operand}, {case['n']} {over})"
    elif fn == "rank":
        call = f"rank({over})"
    else:
        call = f"{fn}({operand} {over})"
    if case["level"] == "calc":
        return f"DS_r <- DS_1[calc Me_w := {call}];"
    return f"DS_r <- {call};"


def model_run(case):
    from vf import model
    from vf.props.c03 import agg_value
    idn = [n for n, _ in case["ids"]]
    nid = len(idn)
    rows = [dict(zip(idn + ["Me_1"], [model.num_in(v) if i >= nid else v for i, v in enumerate(r)])) for r in case["rows"]]
    parts = {}
    for r in rows:
        parts.setdefault(tuple(r[p] for p in case["part"]), []).append(r)
    fn = case["fn"]
    out = {}
    unspec = False
    err = False
    for pkey, prow in parts.items():
        srt = sorted(prow, key=lambda r: tuple(r[o] for o in case["order"]), reverse=(case["dir"] == "desc")) if case["order"] else prow
        n = len(srt)
        for i, r in enumerate(srt):
            key = tuple(r[x] for x in idn)
            if fn in ("lag", "lead"):
                j = i - case["n"] if fn == "lag" else i + case["n"]
                v = srt[j]["Me_1"] if 0 <= j < n else None
            elif fn == "rank":
                v = i + 1
            elif fn == "ratio_to_report":
                tot = agg_value("sum", [x["Me_1"] for x in srt])
                if r["Me_1"] is None or tot is None:
                    v = None
                elif tot == 0:
                    v = "ERR"
                else:
                    v = float(model.to_frac(r["Me_1"]) / model.to_frac(tot))
            else:
                if case["frame"] is None:
                    fr = srt
                else:
                    kind, lo, hi = case["frame"]
                    a, b = bpos(lo), bpos(hi)
                    if kind == "rows":
                        s = 0 if a == -math.inf else max(0, i + a)
                        e = n - 1 if b == math.inf else min(n - 1, i + b)
                        fr = srt[int(s): int(e) + 1] if s <= e else []
                    else:
                        k0 = r[case["order"][0]]
                        fr = [x for x in srt if k0 + a <= x[case["order"][0]] <= k0 + b]
                if fn == "first_value":
                    v = fr[0]["Me_1"] if fr else None
                elif fn == "last_value":
                    v = fr[-1]["Me_1"] if fr else None
                else:
                    v = agg_value(fn, [x["Me_1"] for x in fr]) if fr else ("UNSPEC" if fn == "count" else None)
            if isinstance(v, str) and v == "UNSPEC":
                unspec = True
            if isinstance(v, str) and v == "ERR":
                err = True
            out[key] = v
    if err:
        return "ERR"
    if unspec:
        return "UNSPEC"
    return out


def run_case(case, emit):
    from vf import eng, model
    idn = [n for n, _ in case["ids"]]
    comps = [(n, t, "Identifier", False) for n, t in case["ids"]] + [("Me_1", case["mt"], "Measure", True)]
    st = eng.structures(eng.mkds("DS_1", comps))
    script = render(case)
    exp = model_run(case)
    fr = case["frame"]
    shape = "none" if fr is None else f"{fr[0]}:{_bk(fr[1])}..{_bk(fr[2])}"
    bucket = f"{case['fn']}/{case['level']}/part={len(case['part'])}/{case['dir'] if case['order'] else 'unordered'}/{shape}"
    rng = random.Random(case["permseed"])
    results = []
    for rep in range(3):
        rows = [tuple(r) for r in case["rows"]]
        if rep:
            rng.shuffle(rows)
        results.append(eng.call(eng.run, script, st, {"DS_1": eng.mkdf(idn + ["Me_1"], rows)}))
    status, res = results[0]
    if status == "exc":
        name, code, _ = eng.exc_info(res)
        if exp == "ERR":
            emit({"v": "held", "b": bucket, "sample": {"script": script, "expected": "error", "got": f"{name} {code}"}})
        elif name in ("SemanticError", "VTLSyntaxError"):
            emit({"v": "skip", "why": f"generator_rejected {code}"})
        elif exp == "UNSPEC":
            emit({"v": "inc", "why": "model unspecified and engine raised"})
        else:
            emit({"v": "viol", "b": bucket, "mech": f"valid-analytic-raises/{name}/{case['fn']}/{shape.split(':')[0]}", "what": f"{script} raised {name} {code}: {str(res)[:200]}", "case": case})
        return
    # metamorphic replica: same set on permuted input (decided even where the model is silent)
    d0 = eng.result_digest(res)
    for st_, r in results[1:]:
        if st_ == "exc" or eng.digests_equal(eng.result_digest(r), d0, 1e-7):
            emit({"v": "viol", "b": bucket, "mech": f"depends-on-input-row-order/{case['fn']}/{shape.split(':')[0]}",
                  "what": f"{script}: result changes when the input rows are permuted ({'raised' if st_ == 'exc' else eng.digests_equal(eng.result_digest(r), d0, 1e-7)})", "case": case})
            return
    if exp == "ERR":
        emit({"v": "viol", "b": bucket, "mech": f"error-expected-but-value-returned/{case['fn']}", "what": f"{script}: a partition total is zero but run() returned", "case": case})
        return
    if exp == "UNSPEC":
        emit({"v": "inc", "why": "model unspecified"})
        return
    ds = res["DS_r"]
    got_ids = [n for n, c in ds.components.items() if c.role.value == "Identifier"]
    if sorted(got_ids) != sorted(idn):
        emit({"v": "viol", "b": bucket, "mech": "result-identifiers", "what": f"{script}: identifiers {got_ids}", "case": case})
        return
    non = [n for n in ds.components if n not in got_ids]
    target = "Me_w" if case["level"] == "calc" else non[0]
    if target not in ds.components:
        emit({"v": "viol", "b": bucket, "mech": "result-measure-missing", "what": f"{script}: no component {target} in {list(ds.components)}", "case": case})
        return
    got = eng.rows_of(ds.data, idn + [target])
    want = [tuple(k) + (model.out(v),) for k, v in exp.items()]
    d = eng.same_rowset(got, want, len(idn), tol=1e-7)
    if d:
        emit({"v": "viol", "b": bucket, "mech": f"wrong-window-value/{case['fn']}/{shape.split(':')[0]}/{case['dir'] if case['order'] else 'unordered'}",
              "what": f"{script}: {d}", "case": case})
    else:
        emit({"v": "held", "b": bucket if case["rows"] else "trivial-empty-input", "sample": {"script": script, "rows": len(want), "permutation_replicas": 2}})


def _bk(b):
    return "U" + b[1][0] if b[0] == "unbounded" else ("C" if b[0] == "current" else f"{b[0]}{b[1][0]}")


def run_shard(spec, emit):
    from vf import eng
    rng = random.Random(f"C06-{spec['seed']}-{spec['shard']}")
    bud = eng.Budget(spec.get("budget_s", 100 if spec["tier"] == "quick" else 2400))
    for _ in range(spec["n"]):
        if not bud.ok():
            emit({"v": "inc", "why": "cut by wall-clock budget"})
            break
        run_case(make_case(rng), emit)


def replay(case, emit):
    run_case(case, emit)
