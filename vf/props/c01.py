"""C01 — element-wise operators compute VTL values over matched datapoints.
Differential monitor against vf.model at component level (inside calc), scalar level and dataset level, plus the
exhaustive 3x3 Kleene truth tables and the null rows of between / in."""
import itertools
import random

ID = "C01"
LEVEL = "exploration"
RULE = ("typed random expression trees (depth <= 4) over + - * / unary +-, comparisons, and/or/xor/not, ||, string functions, "
        "in/not_in/between, if/case/nvl/isnull, abs ceil floor exp ln sqrt round trunc mod power log: (a) inside calc over a "
        "dataset with 1-2 identifiers and 2-5 measures of Integer/Number/String/Boolean with nulls; (b) over scalar constants; "
        "(c) at dataset level over 2-3 datasets whose identifier sets are equal or nested (inner match on the common "
        "identifiers, per-measure application, dataset-scalar forms, comparison to bool measure); (d) the exhaustive truth "
        "tables of and/or/xor/not over {true,false,null}^2 and the null rows of between/in in every run. The model says "
        "value / ERR (an exception and no value is required) / UNSPEC (never decides). Bucket = (level, root operator, operand "
        "type mix, null present, error expected); one evaluation = one result set compared.")
ASSUMPTIONS = ["dataset-level measures are compared by position and type, not by name (names are C10's subject)",
               "points where exact decimal and floating arithmetic may differ (comparisons/rounding of inexact values) are UNSPEC"]
FLOORS = {"quick": (500, 80), "thorough": (12000, 300)}
NSH = 16
N = {"quick": 45, "thorough": 1500}

MTYPES = ["Integer", "Number", "String", "Boolean"]


def shards(tier, seed):
    return [{"shard": i, "nshards": NSH, "n": N[tier]} for i in range(NSH)]


def pools():
    return {"Integer": [0, 1, -1, 2, 3, 7, 10, -25, 100, 12345], "Number": [0.0, 1.0, -1.0, 0.5, -0.5, 2.25, 3.75, 10.125, -7.5, 1234.5678, 100.0, 3.0],
            "String": ["", "a", "A", "b", "abc", "hello world", " pad ", "lo", "x_y", "100", "ab", "Zz", "hello"], "Boolean": [True, False]}


# ---------------------------------------------------------------------------------------------------
# (a) component level
# ---------------------------------------------------------------------------------------------------
def make_component_case(rng):
    from vf import exprgen, gen
    comps = [("Id_1", "Integer", "Identifier", False)]
    if rng.random() < 0.4:
        comps.append(("Id_2", "String", "Identifier", False))
    nm = rng.randint(2, 5)
    types = [rng.choice(MTYPES) for _ in range(nm)]
    for i, t in enumerate(types):
        comps.append((f"Me_{i + 1}", t, "Measure", True))
    keys = gen.key_space(rng, comps, per_id=rng.choice([2, 3, 4]))
    rows = gen.rand_rows(rng, comps, keys, n=rng.randint(0, min(len(keys), 8)), null_p=rng.choice([0.0, 0.2, 0.4]), pools=pools())
    operands = {c[0]: c[1] for c in comps}
    g = exprgen.Gen(rng, operands)
    rt = rng.choice(MTYPES)
    tree = g.expr(rt, rng.randint(1, 4))
    clause = rng.choice(["calc", "calc", "calc", "filter"]) if rt == "Boolean" else "calc"
    return {"level": "component", "comps": [list(c) for c in comps], "rows": [list(r) for r in rows], "tree": tree, "rtype": rt, "clause": clause}


def root_of(tree):
    return tree[1] if tree[0] == "op" else tree[0]


def tree_ops(tree, acc=None):
    acc = set() if acc is None else acc
    if tree[0] == "op":
        acc.add(tree[1])
        for ch in tree[2]:
            tree_ops(ch, acc)
    return acc


def run_component_case(case, emit):
    from vf import eng, model
    comps = [tuple(c) for c in case["comps"]]
    rows = [tuple(r) for r in case["rows"]]
    tree = _tuplify(case["tree"])
    names = [c[0] for c in comps]
    expr = model.vtl(tree)
    if case["clause"] == "filter":
        script = f"DS_r <- DS_1[filter {expr}];"
    else:
        script = f"DS_r <- DS_1[calc Me_r := {expr}];"
    outs = []
    for r in rows:
        env = {n: model.num_in(v) for n, v in zip(names, r)}
        outs.append(model.ev(tree, env))
    has_null = any(v is None for r in rows for v in r)
    err = any(o is model.ERR for o in outs)
    unspec = any(o is model.UNSPEC for o in outs)
    types = "+".join(sorted({c[1] for c in comps if c[2] == "Measure"}))
    bucket = f"component-{case['clause']}/{root_of(tree)}->{case['rtype']}/null={has_null}/err={err}"
    st = eng.structures(eng.mkds("DS_1", comps))
    status, res = eng.call(eng.run, script, st, {"DS_1": eng.mkdf(names, rows)})
    judge(case, script, bucket, status, res, emit, err, unspec,
          lambda: [r + (model.out(o),) for r, o in zip(rows, outs)] if case["clause"] == "calc" else [r for r, o in zip(rows, outs) if o is True],
          nid=sum(1 for c in comps if c[2] == "Identifier"), nonempty=bool(rows), ops=tree_ops(tree))


def judge(case, script, bucket, status, res, emit, err, unspec, expected_fn, nid, nonempty, ops=(), result_name="DS_r"):
    from vf import eng
    if status == "exc":
        name, code, isvtl = eng.exc_info(res)
        if name in ("SemanticError", "VTLSyntaxError") and not err:
            emit({"v": "skip", "why": f"generator_rejected {code}"})
            return
        if err:
            emit({"v": "held", "b": bucket, "sample": {"script": script, "expected": "error", "got": f"{name} {code}"}})
        elif unspec:
            emit({"v": "inc", "why": "model unspecified and engine raised"})
        elif not nonempty and isvtl:
            # no datapoint exists: whether a constant sub-expression with an undefined value raises is not specified
            emit({"v": "skip", "why": "VTL error on an input without datapoints (unspecified)"})
        else:
            msg = str(res)
            m = __import__("re").search(r"(Binder|Parser|Catalog|Conversion|Out of Range|Invalid Input|Not implemented) Error", msg)
            fam = "decimal-scale-overflow" if "scale" in msg.lower() and "multiplication" in msg.lower() else (f"{name}:{m.group(0)}" if m else name)
            shape = ""
            if case["level"] == "dataset":
                cmp_ops = {"=", "<>", "<", ">", "<=", ">=", "and", "or", "xor", "between", "isnull"}
                shape = "comparison-of-dataset-expressions/" if set(ops) & cmp_ops else "arithmetic/"
                if "Binder Error" in fam and depth_of(case["tree"]) >= 2:
                    shape = "nested-dataset-expression/"
            mech = f"{case['level']}/{shape}valid-expression-raises/{fam}"
            if fam == "decimal-scale-overflow":
                nmul = _mul_depth(_tuplify(case["tree"]))
                mech = f"number-multiplication-chain/decimal-scale-overflow/{'4-or-more-factors' if nmul >= 3 else '3-factors' if nmul == 2 else 'two-factors'}"
            emit({"v": "viol", "b": bucket, "mech": mech,
                  "what": f"{script} raised {name} {code}: {str(res)[:200]} but every datapoint has a defined value", "case": case})
        return
    if err:
        emit({"v": "viol", "b": bucket, "mech": f"{case['level']}/error-expected-but-value-returned/{'+'.join(sorted(set(ops) & {'/', 'ln', 'sqrt', 'log'})) or 'other'}",
              "what": f"{script}: VTL defines a run-time error for some datapoint but run() returned values", "case": case})
        return
    if unspec:
        emit({"v": "inc", "why": "model unspecified for some datapoint"})
        return
    expected = expected_fn()
    obj = res[result_name]
    if hasattr(obj, "components"):
        cols, got, nk = eng.ds_rows(obj)
        d = eng.same_rowset(got, expected, nid, tol=1e-7) if not isinstance(got, tuple) else str(got)
    else:
        d = None if eng.close(eng.norm(obj.value), expected, 1e-7) else f"scalar {obj.value!r} expected {expected!r}"
    if d:
        opkey = "+".join(sorted(ops))[:60]
        emit({"v": "viol", "b": bucket, "mech": f"{case['level']}/wrong-values/{root_key(ops)}", "what": f"{script}: {d}", "case": case})
    else:
        rec = {"v": "held", "b": bucket if nonempty else "trivial-empty-input"}
        if nonempty:
            rec["sample"] = {"script": script, "rows": len(expected) if isinstance(expected, list) else 1}
        emit(rec)


def _mul_depth(tree):
    """largest number of '*' (and power) operators on a path of the tree: n nested multiplications of Numbers need scale 10*(n+1)"""
    # returns the number of Number factors multiplied together on the widest product of the tree (upper bound):
    # DECIMAL scales add up under '*' (10 per Number operand) and DuckDB refuses a scale above 38
    def factors(t):
        if t[0] in ("c", "ds"):
            return 1, 1
        if t[0] != "op":
            return (1 if isinstance(t[1], float) else 0), 0
        subs = [factors(c) for c in t[2] if isinstance(c, (tuple, list)) and c and c[0] in ("op", "c", "k", "ds")]
        worst = max([w for _, w in subs] or [0])
        if t[1] == "*":
            f = sum(f for f, _ in subs)
        elif t[1] in ("+", "-", "neg", "pos", "abs", "nvl", "if", "case", "round", "trunc"):
            f = max([f for f, _ in subs] or [0])
        else:
            f = 1
        return f, max(worst, f)
    return factors(tree)[1] - 1


def depth_of(tree):
    if tree[0] != "op":
        return 0
    return 1 + max([depth_of(c) for c in tree[2]] or [0])


def root_key(ops):
    ops = sorted(ops)
    return "+".join(ops[:4]) if ops else "leaf"


def _tuplify(t):
    if isinstance(t, list):
        if t and t[0] in ("c", "k", "op", "set"):
            if t[0] == "op":
                return ("op", t[1], [_tuplify(x) for x in t[2]])
            if t[0] == "set":
                return ("set", [_tuplify(x) for x in t[1]])
            return tuple(t)
        return [_tuplify(x) for x in t]
    return t


# ---------------------------------------------------------------------------------------------------
# (b) scalar level
# ---------------------------------------------------------------------------------------------------
def make_scalar_case(rng):
    from vf import exprgen
    g = exprgen.Gen(rng, {})
    rt = rng.choice(MTYPES)
    return {"level": "scalar", "tree": g.expr(rt, rng.randint(1, 4)), "rtype": rt}


def run_scalar_case(case, emit):
    from vf import eng, model
    tree = _tuplify(case["tree"])
    script = f"sc_r <- {model.vtl(tree)};"
    o = model.ev(tree, {})
    st = eng.structures(eng.mkds("DS_0", [("Id_1", "Integer", "Identifier", False)]))
    status, res = eng.call(eng.run, script, st, {})
    bucket = f"scalar/{root_of(tree)}->{case['rtype']}/null={o is None}/err={o is model.ERR}"
    judge(case, script, bucket, status, res, emit, o is model.ERR, o is model.UNSPEC, lambda: model.out(o), 0, True, ops=tree_ops(tree), result_name="sc_r")


# ---------------------------------------------------------------------------------------------------
# (c) dataset level
# ---------------------------------------------------------------------------------------------------
def make_dataset_case(rng):
    from vf import gen
    fam = rng.choice(["num", "num", "num", "str", "cmp", "bool"])
    idsets = rng.choice([[["Id_1", "Id_2"], ["Id_1", "Id_2"], ["Id_1", "Id_2"]], [["Id_1", "Id_2"], ["Id_1"], ["Id_1", "Id_2"]],
                         [["Id_1"], ["Id_1", "Id_2"], ["Id_1"]], [["Id_1"], ["Id_1"], ["Id_1"]]])
    idtypes = {"Id_1": "Integer", "Id_2": "String"}
    nmeas = 1 if fam in ("str", "cmp", "bool") else rng.randint(1, 3)
    if fam == "str":
        mt = ["String"]
    elif fam == "bool":
        mt = ["Boolean"]
    else:
        mt = [rng.choice(["Integer", "Number"]) for _ in range(nmeas)]
    nds = rng.randint(1, 3)
    dss = []
    keypool = {"Id_1": rng.sample([1, 2, 3, 4, 5], 3), "Id_2": rng.sample(["a", "b", "c"], 2)}
    for i in range(nds):
        ids = idsets[i]
        mtypes = [(rng.choice(["Integer", "Number"]) if fam in ("num", "cmp") else t) for t in mt]
        comps = [(n, idtypes[n], "Identifier", False) for n in ids] + [(f"Me_{j + 1}", t, "Measure", True) for j, t in enumerate(mtypes)]
        keys = [()]
        for n in ids:
            keys = [k + (v,) for k in keys for v in keypool[n]]
        rows = gen.rand_rows(rng, comps, keys, n=rng.randint(0, len(keys)), null_p=rng.choice([0.0, 0.25]), pools=pools())
        dss.append({"name": f"DS_{i + 1}", "comps": [list(c) for c in comps], "rows": [list(r) for r in rows]})
    tree = gen_ds_tree(rng, fam, [d["name"] for d in dss], rng.randint(1, 3))
    return {"level": "dataset", "family": fam, "dss": dss, "tree": tree}


def gen_ds_tree(rng, fam, names, d):
    def ds():
        return ["ds", rng.choice(names)]

    def num(dd):
        if dd <= 0 or rng.random() < 0.25:
            return ds()
        r = rng.random()
        if r < 0.45:
            return ["op", rng.choice(["+", "-", "*", "/"]), [num(dd - 1), num(dd - 1)]]
        if r < 0.7:
            k = ["k", rng.choice([2, 3, 10, 0.5, 1.5, -1, 0, 100]), "Number"]
            pair = [num(dd - 1), k]
            if rng.random() < 0.4:
                pair.reverse()
            return ["op", rng.choice(["+", "-", "*", "/"]), pair]
        f = rng.choice(["abs", "neg", "ceil", "floor", "sqrtabs", "lnabs", "round", "trunc", "power", "exp", "nvl", "mod", "log"])
        x = num(dd - 1)
        if f in ("abs", "neg", "ceil", "floor"):
            return ["op", f, [x]]
        if f == "sqrtabs":
            return ["op", "sqrt", [["op", "abs", [x]] if rng.random() < 0.7 else x]]
        if f == "lnabs":
            return ["op", "ln", [["op", "abs", [x]] if rng.random() < 0.7 else x]]
        if f in ("round", "trunc"):
            return ["op", f, [x, ["k", rng.choice([0, 1, 2]), "Integer"]]]
        if f == "power":
            return ["op", "power", [x, ["k", rng.choice([0, 1, 2, 3]), "Integer"]]]
        if f == "exp":
            return ["op", "exp", [["op", "/", [x, ["k", 100.0, "Number"]]]]]
        if f == "nvl":
            return ["op", "nvl", [x, ["k", rng.choice([0, 1.5]), "Number"]]]
        if f == "log":
            return ["op", "log", [["op", "abs", [x]], ["k", rng.choice([2, 10]), "Integer"]]]
        return ["op", "mod", [["op", "abs", [x]], ["k", rng.choice([2, 3]), "Integer"]]]

    def strs(dd):
        if dd <= 0 or rng.random() < 0.3:
            return ds()
        r = rng.random()
        if r < 0.35:
            return ["op", "||", [strs(dd - 1), strs(dd - 1)]]
        if r < 0.55:
            pair = [strs(dd - 1), ["k", rng.choice(["x", "", " y"]), "String"]]
            if rng.random() < 0.4:
                pair.reverse()
            return ["op", "||", pair]
        f = rng.choice(["upper", "lower", "trim", "ltrim", "rtrim", "substr", "replace", "nvl"])
        x = strs(dd - 1)
        if f == "substr":
            return ["op", "substr", [x, ["k", rng.choice([1, 2, 3]), "Integer"], ["k", rng.choice([0, 1, 3]), "Integer"]]]
        if f == "replace":
            return ["op", "replace", [x, ["k", rng.choice(["a", "l", "lo"]), "String"], ["k", rng.choice(["X", ""]), "String"]]]
        if f == "nvl":
            return ["op", "nvl", [x, ["k", "n/a", "String"]]]
        return ["op", f, [x]]

    def cmp_(dd):
        o = rng.choice(["=", "<>", "<", ">", "<=", ">="])
        r = rng.random()
        if r < 0.5:
            return ["op", o, [num(dd - 1), num(dd - 1)]]
        if r < 0.8:
            pair = [num(dd - 1), ["k", rng.choice([0, 1, 2.25, 3, 10, -1]), "Number"]]
            return ["op", o, pair]
        if r < 0.9:
            return ["op", "between", [num(dd - 1), ["k", rng.choice([-1, 0, 1]), "Number"], ["k", rng.choice([2, 3.75, 100]), "Number"]]]
        return ["op", "isnull", [num(dd - 1)]]

    def boolean(dd):
        if dd <= 0 or rng.random() < 0.3:
            return ds()
        r = rng.random()
        if r < 0.55:
            return ["op", rng.choice(["and", "or", "xor"]), [boolean(dd - 1), boolean(dd - 1)]]
        if r < 0.75:
            pair = [boolean(dd - 1), ["k", rng.choice([True, False]), "Boolean"]]
            if rng.random() < 0.4:
                pair.reverse()
            return ["op", rng.choice(["and", "or", "xor"]), pair]
        return ["op", "not", [boolean(dd - 1)]]

    if fam == "num":
        return num(d)
    if fam == "str":
        return strs(d) if rng.random() < 0.8 else ["op", rng.choice(["=", "<", ">="]), [strs(d - 1), strs(d - 1)]]
    if fam == "cmp":
        c = cmp_(d)
        if rng.random() < 0.3:
            return ["op", rng.choice(["and", "or"]), [c, cmp_(d)]]
        return c
    return boolean(max(1, d))


def vtl_ds(tree):
    from vf import model
    if tree[0] == "ds":
        return tree[1]
    if tree[0] == "k":
        return model.vtl(tuple(tree))
    op, ch = tree[1], tree[2]
    parts = [vtl_ds(c) for c in ch]
    if op in model._INFIX:
        return f"({parts[0]} {op} {parts[1]})"
    if op == "neg":
        return f"(- {parts[0]})"
    if op == "not":
        return f"(not {parts[0]})"
    return f"{op}({', '.join(parts)})"


INTERMEDIATE = {"err": False, "unspec": False}


def ev_ds(tree, data):
    """-> ('sc', value) | ('ds', ids(list), {key: [measure values]}) ; measures by position"""
    from vf import model
    if tree[0] == "ds":
        ids, rows = data[tree[1]]
        return ("ds", ids, rows)
    if tree[0] == "k":
        return ("sc", model.num_in(tree[1]))
    op, ch = tree[1], tree[2]
    vals = [ev_ds(c, data) for c in ch]
    dsv = [v for v in vals if v[0] == "ds"]
    for v in dsv:
        # an error (or an undecided point) in an intermediate dataset concerns the whole statement, even when the
        # datapoint is later dropped by the inner match of an enclosing operator
        for meas in v[2].values():
            if any(x is model.ERR for x in meas):
                INTERMEDIATE["err"] = True
            if any(x is model.UNSPEC for x in meas):
                INTERMEDIATE["unspec"] = True
    if not dsv:
        return ("sc", model.apply(op, [v[1] for v in vals]))
    # result identifiers = the largest identifier list; others must be subsets (generator guarantees nesting)
    big = max(dsv, key=lambda v: len(v[1]))
    ids = big[1]
    out = {}
    for key, meas in big[2].items():
        per_operand = []
        ok = True
        for v in vals:
            if v[0] == "sc":
                per_operand.append(None)
                continue
            sub = tuple(key[ids.index(n)] for n in v[1])
            if sub not in v[2]:
                ok = False
                break
            per_operand.append(v[2][sub])
        if not ok:
            continue
        nm = max(len(m) for m in per_operand if m is not None)
        res = []
        for j in range(nm):
            args = []
            for v, m in zip(vals, per_operand):
                args.append(v[1] if v[0] == "sc" else m[j if len(m) > 1 else 0])
            res.append(model.apply(op, args))
        out[key] = res
    return ("ds", ids, out)


def run_dataset_case(case, emit):
    from vf import eng, model
    data = {}
    dss = []
    dfs = {}
    for d in case["dss"]:
        comps = [tuple(c) for c in d["comps"]]
        ids = [c[0] for c in comps if c[2] == "Identifier"]
        rows = {}
        for r in d["rows"]:
            rows[tuple(r[:len(ids)])] = [model.num_in(v) for v in r[len(ids):]]
        data[d["name"]] = (ids, rows)
        dss.append(eng.mkds(d["name"], comps))
        dfs[d["name"]] = eng.mkdf([c[0] for c in comps], [tuple(r) for r in d["rows"]])
    tree = case["tree"]
    script = f"DS_r <- {vtl_ds(tree)};"
    if tree[0] == "ds":
        emit({"v": "skip", "why": "degenerate tree"})
        return
    INTERMEDIATE.update(err=False, unspec=False)
    r = ev_ds(tree, data)
    if r[0] != "ds":
        emit({"v": "skip", "why": "scalar-only tree"})
        return
    flat = [v for meas in r[2].values() for v in meas]
    err = any(v is model.ERR for v in flat) or INTERMEDIATE["err"]
    unspec = any(v is model.UNSPEC for v in flat) or INTERMEDIATE["unspec"]
    if err and not any(v is model.ERR for v in flat):
        # the erroring datapoint does not survive to the result: whether it must still raise is left open
        err, unspec = False, True
    used = sorted({n for n in _names(tree)})
    idrel = "/".join(str(len(data[n][0])) for n in used)
    ops = tree_ops(_tuplify(tree))
    has_null = any(v is None for d in case["dss"] for rr in d["rows"] for v in rr)
    bucket = f"dataset-{case['family']}/{tree[1]}/ids={idrel}/null={has_null}/err={err}"
    status, res = eng.call(eng.run, script, eng.structures(*dss), dfs)
    nid = len(r[1])

    def expected():
        return [tuple(k) + tuple(model.out(v) for v in meas) for k, meas in r[2].items()]
    # order identifiers as the engine does (identifiers first in ds_rows, by component order): compare on key set
    if status == "ok" and not err and not unspec:
        obj = res["DS_r"]
        got_ids = [n for n, c in obj.components.items() if c.role.value == "Identifier"]
        if sorted(got_ids) != sorted(r[1]):
            emit({"v": "viol", "b": bucket, "mech": "dataset/result-identifiers", "what": f"{script}: identifiers {got_ids} expected {r[1]}", "case": case})
            return
        perm = [r[1].index(n) for n in got_ids]

        def expected():  # noqa: F811
            return [tuple(k[i] for i in perm) + tuple(model.out(v) for v in meas) for k, meas in r[2].items()]
    judge(case, script, bucket, status, res, emit, err, unspec, expected, nid, bool(r[2]) or len(used) > 1, ops=ops)


def _names(tree):
    if tree[0] == "ds":
        yield tree[1]
    elif tree[0] == "op":
        for c in tree[2]:
            yield from _names(c)


# ---------------------------------------------------------------------------------------------------
# (d) truth tables
# ---------------------------------------------------------------------------------------------------
def truth_tables(emit):
    from vf import eng, model
    vals = [True, False, None]
    rows = [(i + 1, a, b) for i, (a, b) in enumerate(itertools.product(vals, vals))]
    comps = [("Id_1", "Integer", "Identifier", False), ("Me_1", "Boolean", "Measure", True), ("Me_2", "Boolean", "Measure", True)]
    st = eng.structures(eng.mkds("DS_1", comps), eng.mkds("DS_A", comps[:2]), eng.mkds("DS_B", [comps[0], ("Me_1", "Boolean", "Measure", True)]))
    df = eng.mkdf(["Id_1", "Me_1", "Me_2"], rows)
    for op in ("and", "or", "xor"):
        script = f"DS_r <- DS_1[calc Me_3 := Me_1 {op} Me_2];"
        status, res = eng.call(eng.run, script, st, {"DS_1": df})
        exp = [(i, a, b, model.apply(op, [a, b])) for i, a, b in rows]
        _tt(script, status, res, exp, f"truth-table/{op}/component", emit)
        script = f"DS_r <- DS_A {op} DS_B;"
        status, res = eng.call(eng.run, script, st, {"DS_A": eng.mkdf(["Id_1", "Me_1"], [(i, a) for i, a, b in rows]),
                                                     "DS_B": eng.mkdf(["Id_1", "Me_1"], [(i, b) for i, a, b in rows])})
        _tt(script, status, res, [(i, model.apply(op, [a, b])) for i, a, b in rows], f"truth-table/{op}/dataset", emit)
        for c in vals:
            script = f"DS_r <- DS_1[calc Me_3 := Me_1 {op} {'null' if c is None else str(c).lower()}];"
            if c is None:
                script = f"DS_r <- DS_1[calc Me_3 := Me_1 {op} cast(null, boolean)];"
            status, res = eng.call(eng.run, script, st, {"DS_1": df})
            _tt(script, status, res, [(i, a, b, model.apply(op, [a, c])) for i, a, b in rows], f"truth-table/{op}/component-constant", emit)
    script = "DS_r <- DS_1[calc Me_3 := not Me_1];"
    status, res = eng.call(eng.run, script, st, {"DS_1": df})
    _tt(script, status, res, [(i, a, b, model.apply("not", [a])) for i, a, b in rows], "truth-table/not/component", emit)
    # between / in null rows
    ncomps = [("Id_1", "Integer", "Identifier", False), ("Me_1", "Integer", "Measure", True), ("Me_2", "Integer", "Measure", True), ("Me_3", "Integer", "Measure", True)]
    nv = [None, 1, 5]
    nrows = [(i + 1, a, b, c) for i, (a, b, c) in enumerate(itertools.product(nv, nv, nv))]
    stn = eng.structures(eng.mkds("DS_1", ncomps))
    dfn = eng.mkdf([c[0] for c in ncomps], nrows)
    script = "DS_r <- DS_1[calc Me_4 := between(Me_1, Me_2, Me_3)];"
    status, res = eng.call(eng.run, script, stn, {"DS_1": dfn})
    _tt(script, status, res, [(i, a, b, c, model.apply("between", [a, b, c])) for i, a, b, c in nrows], "null-table/between/component", emit)
    for op in ("in", "not_in"):
        script = f"DS_r <- DS_1[calc Me_4 := Me_1 {op} {{1, 2}}];"
        status, res = eng.call(eng.run, script, stn, {"DS_1": dfn})
        _tt(script, status, res, [(i, a, b, c, model.apply(op, [a, [1, 2]])) for i, a, b, c in nrows], f"null-table/{op}/component", emit)
    for fn, m in (("isnull(Me_1)", lambda a: a is None), ("nvl(Me_1, 9)", lambda a: 9 if a is None else a),
                  ("if Me_1 > 1 then 1 else 0", lambda a: 1 if (a is not None and a > 1) else 0),
                  ("if isnull(Me_1) then Me_2 else Me_1", None)):
        if m is None:
            continue
        script = f"DS_r <- DS_1[calc Me_4 := {fn}];"
        status, res = eng.call(eng.run, script, stn, {"DS_1": dfn})
        _tt(script, status, res, [(i, a, b, c, m(a)) for i, a, b, c in nrows], f"null-table/{fn.split('(')[0].split(' ')[0]}/component", emit)


def _tt(script, status, res, exp, bucket, emit):
    from vf import eng
    case = {"level": "truth-table", "script": script}
    if status == "exc":
        emit({"v": "viol", "b": bucket, "mech": f"truth-table/raises/{type(res).__name__}", "what": f"{script}: {type(res).__name__} {str(res)[:150]}", "case": case})
        return
    cols, got, nk = eng.ds_rows(res["DS_r"])
    d = eng.same_rowset(got, exp, 1)
    if d:
        emit({"v": "viol", "b": bucket, "mech": f"{bucket.rsplit('/', 1)[0]}/wrong-cell", "what": f"{script}: {d}", "case": case})
    else:
        emit({"v": "held", "b": bucket, "sample": {"script": script, "cells": len(exp)}})


def make_dsif_case(rng):
    """dataset-level if / case with a condition on a measure of a third dataset (true / false / null per datapoint)"""
    keys = rng.sample([1, 2, 3, 4, 5, 6], rng.randint(2, 6))
    cond = [[k, rng.choice([None, -2, 0, 1, 5])] for k in keys]
    mk = lambda base: [[k, None if rng.random() < 0.15 else float(base + k)] for k in keys]  # noqa: E731
    return {"level": "dataset-if", "form": rng.choice(["if", "case", "case2"]), "cond": cond, "then": mk(100), "else": mk(200), "mid": mk(300),
            "thr": rng.choice([0, 1]), "condform": rng.choice(["membership", "whole", "flipped", "negated"])}


def run_dsif_case(case, emit):
    from vf import eng
    ci = [("Id_1", "Integer", "Identifier", False), ("Me_1", "Integer", "Measure", True)]
    cn = [("Id_1", "Integer", "Identifier", False), ("Me_1", "Number", "Measure", True)]
    st = eng.structures(eng.mkds("DS_C", ci), eng.mkds("DS_1", cn), eng.mkds("DS_2", cn), eng.mkds("DS_3", cn))
    dfs = {"DS_C": eng.mkdf(["Id_1", "Me_1"], [tuple(r) for r in case["cond"]]), "DS_1": eng.mkdf(["Id_1", "Me_1"], [tuple(r) for r in case["then"]]),
           "DS_2": eng.mkdf(["Id_1", "Me_1"], [tuple(r) for r in case["else"]]), "DS_3": eng.mkdf(["Id_1", "Me_1"], [tuple(r) for r in case["mid"]])}
    t = case["thr"]
    cf = case.get("condform", "membership")
    gt = {"membership": f"DS_C#Me_1 > {t}", "whole": f"DS_C > {t}", "flipped": f"{t} < DS_C", "negated": f"not (DS_C <= {t})"}[cf]
    lt = {"membership": f"DS_C#Me_1 < {t}", "whole": f"DS_C < {t}", "flipped": f"{t} > DS_C", "negated": f"not (DS_C >= {t})"}[cf]
    if case["form"] == "if":
        script = f"DS_r <- if {gt} then DS_1 else DS_2;"
    elif case["form"] == "case":
        script = f"DS_r <- case when {gt} then DS_1 else DS_2;"
    else:
        script = f"DS_r <- case when {gt} then DS_1 when {lt} then DS_3 else DS_2;"   # exclusive conditions
    th, el, mid = dict(map(tuple, case["then"])), dict(map(tuple, case["else"])), dict(map(tuple, case["mid"]))
    exp = []
    outcomes = set()
    for k, c in case["cond"]:
        if c is not None and c > t:
            exp.append((k, th[k]))
            outcomes.add("T")
        elif case["form"] == "case2" and c is not None and c < t:
            exp.append((k, mid[k]))
            outcomes.add("M")
        else:
            exp.append((k, el[k]))
            outcomes.add("N" if c is None else "F")
    bucket = f"dataset-{case['form']}/{cf}/conditions={''.join(sorted(outcomes))}"
    status, res = eng.call(eng.run, script, st, dfs)
    judge(case, script, bucket, status, res, emit, False, False, lambda: exp, 1, True, ops={case["form"]})


def run_case(case, emit):
    lv = case["level"]
    if lv == "dataset-if":
        return run_dsif_case(case, emit)
    if lv == "component":
        run_component_case(case, emit)
    elif lv == "scalar":
        run_scalar_case(case, emit)
    elif lv == "dataset":
        run_dataset_case(case, emit)
    else:
        truth_tables(emit)


ORDERED = {
    # values in increasing order; equal values appear because all pairs (incl. (x, x)) are compared
    "Duration": ["D", "W", "M", "Q", "S", "A"],
    "Date": ["1999-12-31", "2020-01-15", "2020-02-29", "2020-12-31", "2021-01-01"],
    "Time_Period": ["2019Q4", "2020Q1", "2020Q2", "2020Q4", "2021Q1"],
    "String": ["", "A", "Zz", "a", "ab", "b"],
}


def typed_comparisons(emit, only=None):
    """every comparison operator on every ordered pair of values of the non-numeric ordered types, at component and dataset level"""
    from vf import eng
    import operator
    ops = {"=": operator.eq, "<>": operator.ne, "<": operator.lt, ">": operator.gt, "<=": operator.le, ">=": operator.ge}
    for t, vals in ORDERED.items():
        if only and t != only:
            continue
        pairs = [(i, j) for i in range(len(vals)) for j in range(len(vals))]
        c2 = [("Id_1", "Integer", "Identifier", False), ("Me_a", t, "Measure", True), ("Me_b", t, "Measure", True)]
        c1 = [("Id_1", "Integer", "Identifier", False), ("Me_1", t, "Measure", True)]
        rows = [(k, vals[i], vals[j]) for k, (i, j) in enumerate(pairs)] + [(len(pairs), vals[0], None), (len(pairs) + 1, None, vals[1])]
        st = eng.structures(eng.mkds("DS_1", c2), eng.mkds("DS_A", c1), eng.mkds("DS_B", c1))
        dps = {"DS_1": eng.mkdf(["Id_1", "Me_a", "Me_b"], rows), "DS_A": eng.mkdf(["Id_1", "Me_1"], [(r[0], r[1]) for r in rows]), "DS_B": eng.mkdf(["Id_1", "Me_1"], [(r[0], r[2]) for r in rows])}
        for sym, f in ops.items():
            want = {k: f(i, j) for k, (i, j) in enumerate(pairs)}
            want[len(pairs)] = want[len(pairs) + 1] = None
            for level, script, col in (("component", f"DS_r <- DS_1[calc Me_r := Me_a {sym} Me_b];", "Me_r"), ("dataset", f"DS_r <- DS_A {sym} DS_B;", "bool_var")):
                b = f"typed-comparison/{t}/{sym}/{level}"
                case = {"level": "typed-comparison", "type": t, "op": sym}
                s, r = eng.call(eng.run, script, st, dps)
                if s == "exc":
                    name, code, isvtl = eng.exc_info(r)
                    if name == "SemanticError":
                        emit({"v": "skip", "why": f"generator_rejected {code}"})
                    else:
                        emit({"v": "viol", "b": b, "mech": f"typed-comparison/{t}/raises/{name}", "what": f"{script} on {t} values: {name} {code}: {str(r)[:160]}", "case": case})
                    continue
                ds = r["DS_r"]
                if col not in ds.data.columns:
                    emit({"v": "viol", "b": b, "mech": f"typed-comparison/{t}/result-column-missing", "what": f"{script}: columns {list(ds.data.columns)}", "case": case})
                    continue
                got = dict(zip(ds.data["Id_1"].tolist(), [eng.norm(v) for v in ds.data[col].tolist()]))
                bad = [(rows[k][1], rows[k][2], got.get(k), w) for k, w in want.items() if got.get(k) is not w and not (got.get(k) == w and w is not None)]
                if bad:
                    emit({"v": "viol", "b": b, "mech": f"typed-comparison/{t}/{sym}/wrong-value", "what": f"{script}: {bad[0][0]!r} {sym} {bad[0][1]!r} gave {bad[0][2]!r}, expected {bad[0][3]!r} ({len(bad)} of {len(want)} pairs)", "case": case})
                else:
                    emit({"v": "held", "b": b, "sample": {"script": script, "pairs": len(want)}})


def promoted_nulls(emit):
    """string operators applied to a Boolean / Integer / Number measure (implicit promotion to String): a null datapoint stays null"""
    from vf import eng
    for t, vals in (("Boolean", [True, False, None, True]), ("Integer", [1, None, 25, -3]), ("Number", [1.5, None, 2.0, None])):
        c1 = [("Id_1", "Integer", "Identifier", False), ("Me_1", t, "Measure", True)]
        st = eng.structures(eng.mkds("DS_1", c1))
        dps = {"DS_1": eng.mkdf(["Id_1", "Me_1"], list(enumerate(vals)))}
        for script in ('DS_r <- DS_1 || "!";', 'DS_r <- "<" || DS_1;', "DS_r <- length(DS_1);", "DS_r <- upper(DS_1);", "DS_r <- substr(DS_1, 1, 2);", "DS_r <- DS_1 || DS_1;", "DS_r <- trim(DS_1);",
                       'DS_r <- DS_1[calc Me_2 := Me_1 || "!"];', "DS_r <- DS_1[calc Me_2 := length(Me_1)];"):
            b = f"promotion-null/{t}/{script.split('<- ')[1].split('(')[0].split(' ')[0][:10]}"
            case = {"level": "promotion-null", "type": t, "script": script}
            s, r = eng.call(eng.run, script, st, dps)
            if s == "exc":
                emit({"v": "skip", "why": f"promotion not accepted ({type(r).__name__})"})
                continue
            ds = r["DS_r"]
            col = "Me_2" if "Me_2" in ds.data.columns else [c for c in ds.data.columns if c != "Id_1"][-1]
            got = dict(zip(ds.data["Id_1"].tolist(), [eng.norm(v) for v in ds.data[col].tolist()]))
            bad = [(vals[k], got.get(k)) for k in range(len(vals)) if (vals[k] is None) != (got.get(k) is None)]
            if bad:
                emit({"v": "viol", "b": b, "mech": f"promotion-null/{t}/null-not-propagated", "what": f"{script} on {t} values {vals}: input {bad[0][0]!r} gave {bad[0][1]!r}", "case": case})
            else:
                emit({"v": "held", "b": b, "sample": {"script": script, "values": [repr(v) for v in vals], "result": [repr(got.get(k)) for k in range(len(vals))]}})


def run_shard(spec, emit):
    from vf import eng
    rng = random.Random(f"C01-{spec['seed']}-{spec['shard']}")
    bud = eng.Budget(spec.get("budget_s", 100 if spec["tier"] == "quick" else 2400))
    if spec["shard"] % 8 == 0:
        truth_tables(emit)
    if spec["shard"] in (1, 2, 3, 4):
        typed_comparisons(emit, only=list(ORDERED)[spec["shard"] - 1])
    if spec["shard"] == 5:
        promoted_nulls(emit)
    for i in range(spec["n"]):
        if not bud.ok():
            emit({"v": "inc", "why": "cut by wall-clock budget"})
            break
        r = rng.random()
        if r < 0.45:
            case = make_component_case(rng)
        elif r < 0.58:
            case = make_scalar_case(rng)
        elif r < 0.66:
            case = make_dsif_case(rng)
        else:
            case = make_dataset_case(rng)
        run_case(case, emit)


def replay(case, emit):
    run_case(case, emit)
