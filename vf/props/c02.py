"""C02 — clause operators (filter, calc, keep, drop, rename, sub) behave as specified.
Differential monitor: chains of 1-4 clauses over an input dataset, over the result of other clauses and over a join
result, executed by run() and compared with a clause model (structure and values)."""
import random

ID = "C02"
LEVEL = "exploration"
RULE = ("generated chains of 1-4 clauses (filter with conditions evaluating to true/false/null; calc adding or overwriting "
        "measures/attributes, several assignments per clause; keep; drop; rename incl. identifiers; sub on one or two "
        "identifiers) applied to an input dataset, to a parenthesised clause result, or to an inner_join result; oracle: clause "
        "model — filter keeps exactly the rows whose condition is true, calc changes exactly the named components, "
        "keep/drop/rename/sub touch only the listed components, sub drops the fixed identifiers and the non-matching rows; the "
        "result's component names and roles and its datapoints (matched on identifiers, compared by component name) must agree. "
        "Bucket = (clause sequence, source kind, filter outcome mix, null present); one evaluation = one chain result.")
ASSUMPTIONS = ["component order of the result is not compared here (C10 compares it with semantic analysis)"]
FLOORS = {"quick": (350, 60), "thorough": (9000, 200)}
NSH = 16
N = {"quick": 40, "thorough": 1200}
MT = ["Integer", "Number", "String", "Boolean"]


def shards(tier, seed):
    return [{"shard": i, "nshards": NSH, "n": N[tier]} for i in range(NSH)]


def make_case(rng):
    from vf import exprgen, gen
    from vf.props.c01 import pools
    comps = [["Id_1", "Integer", "Identifier"], ["Id_2", "String", "Identifier"]]
    for i in range(rng.randint(1, 4)):
        comps.append([f"Me_{i + 1}", rng.choice(MT), "Measure"])
    if rng.random() < 0.3:
        comps.append(["At_1", rng.choice(["String", "Integer"]), "Attribute"])
    ctuple = [(c[0], c[1], c[2], c[2] != "Identifier") for c in comps]
    keys = [(i, s) for i in rng.sample([1, 2, 3, 4], 3) for s in rng.sample(["a", "b", "c"], 2)]
    rows = gen.rand_rows(rng, ctuple, keys, n=rng.randint(0, len(keys)), null_p=rng.choice([0.0, 0.2, 0.4]), pools=pools())
    # 'union' / 'intersect' of the input with itself denote the input again: the clause chain then runs over a set-operator result
    source = rng.choices(["input", "paren", "join", "union", "intersect"], [5, 2, 2, 1, 1])[0]
    case = {"comps": comps, "rows": [list(r) for r in rows], "source": source, "clauses": []}
    cur = [list(c) for c in comps]
    if source == "join":
        # DS_2 shares the identifiers, brings measure Me_9 (no name clash)
        t9 = rng.choice(MT)
        c2 = [("Id_1", "Integer", "Identifier", False), ("Id_2", "String", "Identifier", False), ("Me_9", t9, "Measure", True)]
        rows2 = gen.rand_rows(rng, c2, keys, n=rng.randint(0, len(keys)), null_p=0.2, pools=pools())
        case["rows2"] = [list(r) for r in rows2]
        case["t9"] = t9
        cur.append(["Me_9", t9, "Measure"])
    nfix = 0
    focus = None
    nclauses = rng.randint(1, 4)
    it = 0
    while it < nclauses or focus:
        it += 1
        ids = [c for c in cur if c[2] == "Identifier"]
        non = [c for c in cur if c[2] != "Identifier"]
        kinds = ["filter", "calc", "calc"]
        if len(non) >= 2:
            kinds += ["keep", "drop"]
        kinds += ["rename"]
        if len(ids) >= 2 or (len(ids) == 1 and False):
            kinds.append("sub")
        k = rng.choice(kinds)
        operands = {c[0]: c[1] for c in cur if c[1] in MT}
        if focus:
            # the clause right after a swap/shift rename reads the re-used names
            k = rng.choice(["filter", "calc", "calc", "sub"] if len(ids) >= 2 else ["filter", "calc"])
            fo = {n: t for n, t in operands.items() if n in focus}
            operands = fo or operands
            focus = None
        g = exprgen.Gen(rng, operands)
        if k == "filter":
            case["clauses"].append(["filter", g.cond(rng.randint(1, 2))])
        elif k == "calc":
            items = []
            names_used = set()
            for _ in range(rng.randint(1, 2)):
                t = rng.choice(MT)
                if non and rng.random() < 0.4:
                    target = rng.choice(non)[0]
                    role = None
                else:
                    target = f"Me_n{nfix}"
                    nfix += 1
                    role = rng.choice([None, None, "measure", "attribute"])
                if target in names_used:
                    continue
                names_used.add(target)
                items.append([role, target, g.expr(t, rng.randint(0, 2)), t])
            for role, target, _, t in items:
                ex = next((c for c in cur if c[0] == target), None)
                newrole = {"measure": "Measure", "attribute": "Attribute", None: "Measure"}[role]   # omitted role = measure
                if ex:
                    ex[1], ex[2] = t, newrole
                else:
                    cur.append([target, t, newrole])
            case["clauses"].append(["calc", items])
        elif k in ("keep", "drop"):
            sel = rng.sample(non, rng.randint(1, max(1, len(non) - 1)))
            names = [c[0] for c in sel]
            case["clauses"].append([k, names])
            cur = [c for c in cur if c[2] == "Identifier" or ((c[0] in names) == (k == "keep"))]
        elif k == "rename":
            style = rng.random()
            same_role = [c for c in non] if len(non) >= 2 else []
            if style < 0.35 and len(same_role) >= 2:
                # simultaneous renames whose targets are also sources: swap (a->b, b->a) or shift (a->b, b->fresh)
                a, b = rng.sample(same_role, 2)
                if rng.random() < 0.5:
                    pairs = [[a[0], b[0]], [b[0], a[0]]]
                    a[0], b[0] = b[0], a[0]
                    focus = {a[0], b[0]}
                else:
                    fresh = f"Me_r{nfix}"
                    nfix += 1
                    pairs = [[a[0], b[0]], [b[0], fresh]]
                    a[0], b[0] = b[0], fresh
                    focus = {a[0], b[0]}
                    if rng.random() < 0.5:
                        pairs.reverse()
            else:
                sel = rng.sample(cur, rng.randint(1, min(2, len(cur))))
                pairs = []
                for c in sel:
                    new = f"{'Id' if c[2] == 'Identifier' else 'Me'}_r{nfix}"
                    nfix += 1
                    pairs.append([c[0], new])
                    c[0] = new
            case["clauses"].append(["rename", pairs])
        else:
            idc = rng.choice(ids)
            vals = sorted({r[[c[0] for c in comps].index(idc[0])] for r in rows}, key=repr) if idc[0] in [c[0] for c in comps] else []
            pool = vals + ([99] if idc[1] == "Integer" else ["zz"])
            case["clauses"].append(["sub", [[idc[0], rng.choice(pool), idc[1]]]])
            cur = [c for c in cur if c[0] != idc[0]]
    return case


def render(case):
    from vf import gen, model
    from vf.props.c01 import _tuplify
    src = {"input": "DS_1", "paren": "(DS_1)", "join": "inner_join(DS_1, DS_2)", "union": "union(DS_1, DS_1)", "intersect": "intersect(DS_1, DS_1)"}[case["source"]]
    s = src
    for i, (k, arg) in enumerate(case["clauses"]):
        if k == "filter":
            body = f"filter {model.vtl(_tuplify(arg))}"
        elif k == "calc":
            body = "calc " + ", ".join(f"{(r + ' ') if r else ''}{t} := {model.vtl(_tuplify(e))}" for r, t, e, _ in arg)
        elif k in ("keep", "drop"):
            body = f"{k} " + ", ".join(arg)
        elif k == "rename":
            body = "rename " + ", ".join(f"{a} to {b}" for a, b in arg)
        else:
            body = "sub " + ", ".join(f"{n} = {gen.lit(v, t)}" for n, v, t in arg)
        s = f"{s}[{body}]" if not (case["source"] == "paren" and i == 1) else f"({s})[{body}]"
    return f"DS_r <- {s};"


def model_run(case):
    """-> (comps [(name, role)], rows [dict]) | 'ERR' | 'UNSPEC'"""
    from vf import model
    from vf.props.c01 import _tuplify
    names = [c[0] for c in case["comps"]]
    comps = [[c[0], c[2]] for c in case["comps"]]
    rows = [{n: model.num_in(v) for n, v in zip(names, r)} for r in case["rows"]]
    if case["source"] == "join":
        idx = {(r[0], r[1]): model.num_in(r[2]) for r in case["rows2"]}
        rows = [dict(r, Me_9=idx[(r["Id_1"], r["Id_2"])]) for r in rows if (r["Id_1"], r["Id_2"]) in idx]
        comps.append(["Me_9", "Measure"])
    mix = set()
    status = None
    seen_err = False
    for k, arg in case["clauses"]:
        if k == "filter":
            tree = _tuplify(arg)
            out = []
            for r in rows:
                v = model.ev(tree, r)
                if v is model.ERR:
                    seen_err = True
                    out.append(dict(r, __poison__=True))
                    continue
                if v is model.UNSPEC:
                    status = "UNSPEC"
                    continue
                mix.add({True: "T", False: "F", None: "N"}[v])
                if v is True:
                    out.append(r)
            rows = out
        elif k == "calc":
            newrows = []
            for r in rows:
                nr = dict(r)
                for role, target, e, t in arg:
                    v = model.ev(_tuplify(e), r)     # all assignments of one clause read the clause's input
                    if v is model.ERR:
                        seen_err = True      # kept as a poisoned cell: decided at the end (see below)
                    if v is model.UNSPEC:
                        status = "UNSPEC"
                    nr[target] = v
                newrows.append(nr)
            rows = newrows
            for role, target, e, t in arg:
                ex = next((c for c in comps if c[0] == target), None)
                nr_ = {"measure": "Measure", "attribute": "Attribute", None: "Measure"}[role]
                if ex:
                    ex[1] = nr_
                else:
                    comps.append([target, nr_])
        elif k in ("keep", "drop"):
            comps = [c for c in comps if c[1] == "Identifier" or ((c[0] in arg) == (k == "keep"))]
            keepn = {c[0] for c in comps}
            rows = [{n: v for n, v in r.items() if n in keepn or n == "__poison__"} for r in rows]
        elif k == "rename":
            m = dict(arg)
            for c in comps:
                c[0] = m.get(c[0], c[0])
            rows = [{m.get(n, n): v for n, v in r.items()} for r in rows]
        else:
            for n, v, t in arg:
                rows = [r for r in rows if r[n] == model.num_in(v)]
                comps = [c for c in comps if c[0] != n]
                rows = [{a: b for a, b in r.items() if a != n} for r in rows]
    # an error is required only when the undefined value survives into the result; when later clauses remove the
    # datapoint or the component, lazy evaluation may legitimately never compute it: undecided
    if any(r.get("__poison__") or any(v is model.ERR for v in r.values()) for r in rows):
        return "ERR", mix
    if seen_err or status:
        return "UNSPEC", mix
    return (comps, rows), mix


def run_case(case, emit):
    from vf import eng, model
    script = render(case)
    ctuple = [(c[0], c[1], c[2], c[2] != "Identifier") for c in case["comps"]]
    dss = [eng.mkds("DS_1", ctuple)]
    dps = {"DS_1": eng.mkdf([c[0] for c in ctuple], [tuple(r) for r in case["rows"]])}
    if case["source"] == "join":
        c2 = [("Id_1", "Integer", "Identifier", False), ("Id_2", "String", "Identifier", False), ("Me_9", case["t9"], "Measure", True)]
        dss.append(eng.mkds("DS_2", c2))
        dps["DS_2"] = eng.mkdf(["Id_1", "Id_2", "Me_9"], [tuple(r) for r in case["rows2"]])
    exp, mix = model_run(case)
    seq = "-".join(k for k, _ in case["clauses"])
    has_null = any(v is None for r in case["rows"] for v in r)
    bucket = f"{seq}/{case['source']}/filter={''.join(sorted(mix)) or '-'}/null={has_null}"
    status, res = eng.call(eng.run, script, eng.structures(*dss), dps)
    if status == "exc":
        name, code, isvtl = eng.exc_info(res)
        if exp == "ERR":
            emit({"v": "held", "b": bucket, "sample": {"script": script, "expected": "error", "got": f"{name} {code}"}})
        elif name in ("SemanticError", "VTLSyntaxError"):
            emit({"v": "skip", "why": f"generator_rejected {code}"})
        elif exp == "UNSPEC":
            emit({"v": "inc", "why": "model unspecified and engine raised"})
        else:
            import re
            msg = str(res)
            m = re.search(r"(Binder|Parser|Catalog|Conversion|Out of Range|Invalid Input) Error", msg)
            fam = "decimal-scale-overflow" if "scale" in msg.lower() and "multiplication" in msg.lower() else (f"{name}:{m.group(0)}" if m else name)
            emit({"v": "viol", "b": bucket, "mech": f"valid-chain-raises/{fam}/last={case['clauses'][-1][0]}",
                  "what": f"{script} raised {name} {code}: {msg[:200]}", "case": case})
        return
    if exp == "ERR":
        emit({"v": "viol", "b": bucket, "mech": "error-expected-but-value-returned", "what": f"{script}: a datapoint has an undefined value (e.g. division by zero) but run() returned", "case": case})
        return
    if exp == "UNSPEC":
        emit({"v": "inc", "why": "model unspecified"})
        return
    comps, rows = exp
    ds = res["DS_r"]
    got_struct = sorted((n, c.role.value) for n, c in ds.components.items())
    want_struct = sorted((c[0], c[1]) for c in comps)
    if got_struct != want_struct:
        emit({"v": "viol", "b": bucket, "mech": f"structure/{case['clauses'][-1][0]}",
              "what": f"{script}: components {got_struct} expected {want_struct}", "case": case})
        return
    ids = [c[0] for c in comps if c[1] == "Identifier"]
    order = ids + [c[0] for c in comps if c[1] != "Identifier"]
    got = eng.rows_of(ds.data, order)
    want = [tuple(model.out(r[n]) for n in order) for r in rows]
    d = eng.same_rowset(got, want, len(ids), tol=1e-7)
    if d:
        kinds = [k for k, _ in case["clauses"]]
        emit({"v": "viol", "b": bucket, "mech": f"wrong-datapoints/{'+'.join(sorted(set(kinds)))}", "what": f"{script}: {d}", "case": case})
    else:
        emit({"v": "held", "b": bucket if case["rows"] else "trivial-empty-input", "sample": {"script": script, "rows_in": len(case["rows"]), "rows_out": len(want)}})


def run_shard(spec, emit):
    from vf import eng
    rng = random.Random(f"C02-{spec['seed']}-{spec['shard']}")
    bud = eng.Budget(spec.get("budget_s", 100 if spec["tier"] == "quick" else 2400))
    for _ in range(spec["n"]):
        if not bud.ok():
            emit({"v": "inc", "why": "cut by wall-clock budget"})
            break
        run_case(make_case(rng), emit)


def replay(case, emit):
    run_case(case, emit)
