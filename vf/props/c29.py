"""C29 — names that differ only in letter case stay distinct.
Monitor: scripts over structures with case-variant component names (Me_1 / me_1 / ME_1, Id_1 / id_1) in one dataset and
across datasets, case-variant dataset names and result names, in every operator family; results compared with a
(case-sensitive) model and with semantic_analysis()."""
import random

ID = "C29"
LEVEL = "exploration"
RULE = ("table-driven scripts x generated data: case-variant measures / attributes / identifiers inside one dataset, across "
        "two datasets, dataset names and result names differing only in case; operator families: assignment, calc, filter, "
        "keep/drop/rename, dataset-dataset and dataset-scalar operators, join, aggregation, set operators. Oracle: a "
        "case-sensitive model of each script (every component keeps its own values; a component is present when "
        "semantic_analysis() says so) — values compared by exact component name. Bucket = (where the case variants live, "
        "operator family); one evaluation = one script result compared.")
ASSUMPTIONS = ["the model is the obvious case-sensitive reading of each script; no engine code is involved in it"]
FLOORS = {"quick": (40, 12), "thorough": (200, 12)}
NSH = 16


def shards(tier, seed):
    return [{"shard": i, "nshards": NSH} for i in range(NSH)]


def cases(rng):
    """(where, family, script, structures, data, expected {result: (cols, rows)})"""
    out = []
    ks = [1, 2, 3]
    a = {k: float(rng.choice([1, 2, 3, 5])) for k in ks}
    b = {k: float(rng.choice([10, 20, 30, 50])) for k in ks}
    c = {k: float(rng.choice([100, 200, 300])) for k in ks}
    I = ("Id_1", "Integer", "Identifier", False)
    same = [I, ("Me_1", "Number", "Measure", True), ("me_1", "Number", "Measure", True), ("ME_1", "Number", "Measure", True)]
    rows_same = [(k, a[k], b[k], c[k]) for k in ks]
    S = ("same-dataset-measures", {"DS_1": same}, {"DS_1": rows_same})
    out.append(S + ("assignment", "DS_r <- DS_1;", {"DS_r": (["Id_1", "Me_1", "me_1", "ME_1"], rows_same)}))
    out.append(S + ("calc", "DS_r <- DS_1[calc Me_2 := Me_1 + me_1 * 2];", {"DS_r": (["Id_1", "Me_1", "me_1", "ME_1", "Me_2"], [(k, a[k], b[k], c[k], a[k] + 2 * b[k]) for k in ks])}))
    out.append(S + ("filter", "DS_r <- DS_1[filter me_1 > 15 and Me_1 < 5];", {"DS_r": (["Id_1", "Me_1", "me_1", "ME_1"], [r for r in rows_same if r[2] > 15 and r[1] < 5])}))
    out.append(S + ("keep", "DS_r <- DS_1[keep me_1];", {"DS_r": (["Id_1", "me_1"], [(k, b[k]) for k in ks])}))
    out.append(S + ("drop", "DS_r <- DS_1[drop Me_1];", {"DS_r": (["Id_1", "me_1", "ME_1"], [(k, b[k], c[k]) for k in ks])}))
    out.append(S + ("rename", "DS_r <- DS_1[rename me_1 to Me_9];", {"DS_r": (["Id_1", "Me_1", "Me_9", "ME_1"], rows_same)}))
    out.append(S + ("dataset-scalar", "DS_r <- DS_1 * 2;", {"DS_r": (["Id_1", "Me_1", "me_1", "ME_1"], [(k, 2 * a[k], 2 * b[k], 2 * c[k]) for k in ks])}))
    out.append(S + ("aggregation", "DS_r <- sum(DS_1);", {"DS_r": (["Me_1", "me_1", "ME_1"], [(sum(a.values()), sum(b.values()), sum(c.values()))])}))
    out.append(S + ("membership", "DS_r <- DS_1#me_1;", {"DS_r": (["Id_1", "me_1"], [(k, b[k]) for k in ks])}))
    two = {"DS_1": [I, ("Me_1", "Number", "Measure", True)], "DS_2": [I, ("me_1", "Number", "Measure", True)]}
    d_two = {"DS_1": [(k, a[k]) for k in ks], "DS_2": [(k, b[k]) for k in ks]}
    T = ("across-datasets-measures", two, d_two)
    out.append(T + ("join", "DS_r <- inner_join(DS_1, DS_2);", {"DS_r": (["Id_1", "Me_1", "me_1"], [(k, a[k], b[k]) for k in ks])}))
    out.append(T + ("join-calc", "DS_r <- inner_join(DS_1, DS_2 calc Me_2 := Me_1 + me_1);", {"DS_r": (["Id_1", "Me_1", "me_1", "Me_2"], [(k, a[k], b[k], a[k] + b[k]) for k in ks])}))
    out.append(T + ("two-results", "DS_r <- DS_1; DS_s <- DS_2;", {"DS_r": (["Id_1", "Me_1"], d_two["DS_1"]), "DS_s": (["Id_1", "me_1"], d_two["DS_2"])}))
    names = {"DS_1": [I, ("Me_1", "Number", "Measure", True)], "ds_1": [I, ("Me_1", "Number", "Measure", True)]}
    d_names = {"DS_1": [(k, a[k]) for k in ks], "ds_1": [(k, b[k]) for k in ks]}
    N = ("dataset-names", names, d_names)
    out.append(N + ("assignment", "DS_r <- DS_1; DS_s <- ds_1;", {"DS_r": (["Id_1", "Me_1"], d_names["DS_1"]), "DS_s": (["Id_1", "Me_1"], d_names["ds_1"])}))
    out.append(N + ("dataset-dataset", "DS_r <- DS_1 + ds_1;", {"DS_r": (["Id_1", "Me_1"], [(k, a[k] + b[k]) for k in ks])}))
    out.append(N + ("set-operator", "DS_r <- union(DS_1, ds_1[calc identifier Id_1 := Id_1 + 10]);", None))
    R = ("result-names", {"DS_1": [I, ("Me_1", "Number", "Measure", True)]}, {"DS_1": [(k, a[k]) for k in ks]})
    out.append(R + ("two-results", "DS_r <- DS_1; ds_r <- DS_1 * 2; Ds_R <- DS_1 + 1;", {"DS_r": (["Id_1", "Me_1"], [(k, a[k]) for k in ks]), "ds_r": (["Id_1", "Me_1"], [(k, 2 * a[k]) for k in ks]),
                                                                                           "Ds_R": (["Id_1", "Me_1"], [(k, a[k] + 1) for k in ks])}))
    out.append(R + ("intermediate", "tmp := DS_1 * 3; TMP := DS_1 * 5; DS_r <- tmp + TMP;", {"DS_r": (["Id_1", "Me_1"], [(k, 8 * a[k]) for k in ks])}))
    C = ("created-by-script", {"DS_1": [I, ("Me_1", "Number", "Measure", True)]}, {"DS_1": [(k, a[k]) for k in ks]})
    out.append(C + ("rename", "DS_r <- DS_1[rename Me_1 to ME_1];", {"DS_r": (["Id_1", "ME_1"], [(k, a[k]) for k in ks])}))
    out.append(C + ("calc", "DS_r <- DS_1[calc me_1 := Me_1 * 2];", {"DS_r": (["Id_1", "Me_1", "me_1"], [(k, a[k], 2 * a[k]) for k in ks])}))
    out.append(C + ("calc-chain", "DS_r <- DS_1[calc me_1 := Me_1 * 2][calc ME_1 := me_1 + Me_1][drop Me_1];", {"DS_r": (["Id_1", "me_1", "ME_1"], [(k, 2 * a[k], 3 * a[k]) for k in ks])}))
    out.append(C + ("aggr", "DS_r <- DS_1[aggr me_1 := sum(Me_1), ME_1 := count() group by Id_1];", {"DS_r": (["Id_1", "me_1", "ME_1"], [(k, a[k], 1) for k in ks])}))
    out.append(C + ("rename-identifier", "DS_r <- DS_1[rename Id_1 to ID_1];", {"DS_r": (["ID_1", "Me_1"], [(k, a[k]) for k in ks])}))
    out.append(C + ("join-rename", "DS_r <- inner_join(DS_1, DS_1[rename Me_1 to me_1] as d2);", {"DS_r": (["Id_1", "Me_1", "me_1"], [(k, a[k], a[k]) for k in ks])}))
    out.append(C + ("calc-then-keep", "DS_r <- DS_1[calc me_1 := Me_1 + 100][keep me_1];", {"DS_r": (["Id_1", "me_1"], [(k, a[k] + 100) for k in ks])}))
    ids = {"DS_1": [I, ("id_1", "Integer", "Identifier", False), ("Me_1", "Number", "Measure", True)]}
    d_ids = {"DS_1": [(k, 10 * k, a[k]) for k in ks]}
    D = ("same-dataset-identifiers", ids, d_ids)
    out.append(D + ("assignment", "DS_r <- DS_1;", {"DS_r": (["Id_1", "id_1", "Me_1"], d_ids["DS_1"])}))
    out.append(D + ("aggregation", "DS_r <- sum(DS_1 group by id_1);", {"DS_r": (["id_1", "Me_1"], [(10 * k, a[k]) for k in ks])}))
    at = {"DS_1": [I, ("Me_1", "Number", "Measure", True), ("me_1", "String", "Attribute", True)]}
    d_at = {"DS_1": [(k, a[k], f"s{k}") for k in ks]}
    A = ("measure-vs-attribute", at, d_at)
    out.append(A + ("assignment", "DS_r <- DS_1;", {"DS_r": (["Id_1", "Me_1", "me_1"], d_at["DS_1"])}))
    out.append(A + ("calc", "DS_r <- DS_1[calc Me_2 := Me_1 * 2];", {"DS_r": (["Id_1", "Me_1", "me_1", "Me_2"], [(k, a[k], f"s{k}", 2 * a[k]) for k in ks])}))
    return out


def run_shard(spec, emit):
    from vf import eng
    rng = random.Random(f"C29-{spec['seed']}-{spec['shard']}")
    reps = 2 if spec["tier"] == "quick" else 8
    for rep in range(reps):
        for i, (where, structs, data, family, script, exp) in enumerate(cases(rng)):
            if (i + rep) % spec["nshards"] != spec["shard"]:
                continue
            st = eng.structures(*[eng.mkds(n, cs) for n, cs in structs.items()])
            dfs = {n: eng.mkdf([c[0] for c in structs[n]], rows) for n, rows in data.items()}
            b = f"{where}/{family}"
            case = {"where": where, "family": family, "script": script}
            s1, sa = eng.call(eng.semantic_analysis, script, st)
            s, r = eng.call(eng.run, script, st, dfs, return_only_persistent=False)
            if s1 == "exc":
                emit({"v": "skip", "why": f"semantic analysis rejects the script ({type(sa).__name__})"})
                continue
            if s == "exc":
                name, code, _ = eng.exc_info(r)
                import re
                m = re.search(r"(Binder|Parser|Catalog|Conversion) Error", str(r))
                # structures that cannot even be loaded fail the same way whatever the script does; elsewhere the script matters
                fam = "" if where in ("same-dataset-measures", "same-dataset-identifiers", "measure-vs-attribute") else family + "/"
                emit({"v": "viol", "b": b, "mech": f"{where}/{fam}accepted-script-fails-at-execution/{name}{':' + m.group(0) if m else ''}",
                      "what": f"{script} (semantic_analysis accepts it): {name} {code}: {str(r)[:200]}", "case": case})
                continue
            probs = []
            for rn, pred in sa.items():
                if rn not in r:
                    continue
                got_names = list(r[rn].components) if hasattr(r[rn], "components") else []
                if hasattr(pred, "components") and sorted(pred.components) != sorted(got_names):
                    probs.append(f"{rn}: components {got_names}, semantic_analysis says {list(pred.components)}")
            if exp is not None and not probs:
                for rn, (cols, rows) in exp.items():
                    if rn not in r:
                        probs.append(f"result {rn} missing (returned {sorted(r)})")
                        continue
                    ds = r[rn]
                    if sorted(ds.components) != sorted(cols):
                        probs.append(f"{rn}: components {list(ds.components)} expected {cols}")
                        continue
                    nid = sum(1 for c in cols if ds.components[c].role.value == "Identifier")
                    order = [c for c in cols if ds.components[c].role.value == "Identifier"] + [c for c in cols if ds.components[c].role.value != "Identifier"]
                    want = [tuple(row[cols.index(c)] for c in order) for row in rows]
                    d = eng.same_rowset(eng.rows_of(ds.data, order), want, nid or None)
                    if d:
                        probs.append(f"{rn}: {d}")
            if probs:
                emit({"v": "viol", "b": b, "mech": f"{where}/wrong-result/{family}", "what": f"{script}: {probs[:2]}", "case": case})
            else:
                emit({"v": "held", "b": b, "sample": {"script": script, "where": where}})


def replay(case, emit):
    emit({"v": "inc", "why": "C29 is table-driven: re-run the check; point: " + str(case)[:200]})
