"""C27 — SDMX structures map to VTL structures as documented.
Exhaustive monitor over pysdmx.model.DataType x Role in Schema / DataStructureDefinition / Dataflow objects through
to_vtl_json(), semantic_analysis(), run() and run_sdmx(); truth tables parsed from docs/data_structures.rst."""
import itertools
import random
import re

ID = "C27"
LEVEL = "exploration"
EXHAUSTIVE = True
RULE = ("every member of the installed pysdmx DataType enum x every Role (dimension, measure, attribute), as single components "
        "and in random structures of 1-5 components, wrapped as Schema, DataStructureDefinition and Dataflow, observed through "
        "to_vtl_json(), semantic_analysis(script, structure), run(script, structure, DataFrame) and run_sdmx(PandasDataset). "
        "Oracle from the role and type tables of docs/data_structures.rst (parsed at run time): one VTL component per SDMX "
        "component with the documented role and type, dimensions are the only non-nullable components; a data type the table "
        "does not map must be rejected with an InputValidationException. Bucket = (SDMX data type, role, structure kind, entry "
        "point); one evaluation = one component mapping observed at one entry point.")
ASSUMPTIONS = ["run()/run_sdmx() are exercised with empty or one-row string data: the subject is the structure, not the values"]
FLOORS = {"quick": (700, 200), "thorough": (2500, 300)}
NSH = 16


def shards(tier, seed):
    return [{"shard": i, "nshards": NSH} for i in range(NSH)]


def docs_tables():
    import os
    import vboot
    txt = open(os.path.join(vboot.REPO, "docs", "data_structures.rst")).read()
    sec = txt.split("**Types** are collapsed", 1)[1].split("See :doc:`data_types`", 1)[0]
    rows = re.split(r"\n    \* - ", sec)[2:]
    types = {}
    for r in rows:
        left, _, right = r.partition("\n      - ")
        vt = re.search(r"``(\w+)``", right).group(1)
        for name in re.findall(r"``(\w+)``", left):
            types[name] = vt
        if "all reporting period variants" in left:
            for v in ("Year", "Semester", "Trimester", "Quarter", "Month", "Week", "Day"):
                types["Reporting" + v] = vt
    rsec = txt.split("**Roles** translate one-to-one", 1)[1].split("**Nullability**", 1)[0]
    roles = {}
    for m in re.finditer(r"\* - ``Role\.(\w+)``\s*\n\s*- ``(\w+)``\s*\n\s*- ``(\w+)``", rsec):
        roles[m.group(1)] = (m.group(2), m.group(3) == "true")
    return types, roles


def build(kind, comps, sid="DSD1"):
    from pysdmx.model import Component, Components, Concept
    from pysdmx.model.dataflow import Dataflow, DataStructureDefinition, Schema
    cs = Components([Component(id=cid, required=(role.name == "DIMENSION"), role=role, concept=Concept(id=cid), local_dtype=dt,
                               **({"attachment_level": "O"} if role.name == "ATTRIBUTE" else {})) for cid, role, dt in comps])
    if kind == "schema":
        return Schema(context="datastructure", agency="MD", id=sid, version="1.0", components=cs)
    dsd = DataStructureDefinition(id=sid, agency="MD", version="1.0", components=cs, name=sid)
    if kind == "dsd":
        return dsd
    return Dataflow(id=sid, agency="MD", version="1.0", name=sid, structure=dsd)


def check_mapping(vtl_comps, comps, types, roles, entry, kind, emit, case):
    """vtl_comps: {name: (type, role, nullable)} observed; comps: [(id, Role, DataType)]"""
    for cid, role, dt in comps:
        b = f"{dt.value}/{role.name}/{kind}/{entry}"
        want_t = types.get(dt.value)
        want_r, want_n = roles[role.name]
        got = vtl_comps.get(cid)
        if got is None:
            emit({"v": "viol", "b": b, "mech": f"component-missing/{entry}", "what": f"{entry} ({kind}): SDMX component {cid} ({dt.value}, {role.name}) has no VTL component; got {sorted(vtl_comps)}", "case": case})
        elif got != (want_t, want_r, want_n):
            what = "type" if got[0] != want_t else ("role" if got[1] != want_r else "nullability")
            emit({"v": "viol", "b": b, "mech": f"wrong-{what}/{dt.value if what == 'type' else role.name}/{entry}",
                  "what": f"{entry} ({kind}): {cid} ({dt.value}, {role.name}) mapped to {got}, documented {(want_t, want_r, want_n)}", "case": case})
        else:
            emit({"v": "held", "b": b, "sample": {"sdmx": [dt.value, role.name], "vtl": list(got), "entry": entry, "structure": kind}})
    extra = set(vtl_comps) - {c[0] for c in comps}
    if extra:
        emit({"v": "viol", "b": f"extra/{kind}/{entry}", "mech": f"extra-component/{entry}", "what": f"{entry}: VTL components {sorted(extra)} have no SDMX counterpart", "case": case})


VTL2ENG = {"Time_Period": "TimePeriod", "Time": "TimeInterval"}


def observe(structure, comps, kind, types, roles, emit, case, with_run):
    import pandas as pd
    from vf import eng
    from vtlengine.files.sdmx_handler import to_vtl_json
    name = "DSD1"
    unmapped = [c for c in comps if c[2].value not in types]
    # ---- to_vtl_json --------------------------------------------------------------------------
    s, r = eng.call(to_vtl_json, structure, name)
    if unmapped:
        b = f"{unmapped[0][2].value}/{unmapped[0][1].name}/{kind}/unmapped"
        for entry, (st, res) in (("to_vtl_json", (s, r)), ("semantic_analysis", eng.call(eng.semantic_analysis, f"DS_r <- {name};", structure))):
            if st == "ok":
                emit({"v": "viol", "b": b, "mech": f"unmapped-type-accepted/{unmapped[0][2].value}/{entry}", "what": f"{entry} accepts SDMX data type {unmapped[0][2].value}, which the documented table does not map", "case": case})
            elif type(res).__name__ != "InputValidationException":
                emit({"v": "viol", "b": b, "mech": f"unmapped-type-wrong-error/{type(res).__name__}/{entry}", "what": f"{entry} on SDMX data type {unmapped[0][2].value}: {type(res).__name__}: {str(res)[:100]} instead of an InputValidationException", "case": case})
            else:
                emit({"v": "held", "b": b + "/" + entry})
        return
    if s == "exc":
        emit({"v": "viol", "b": f"{kind}/to_vtl_json", "mech": f"mapped-structure-rejected/to_vtl_json/{type(r).__name__}", "what": f"to_vtl_json raised {type(r).__name__}: {str(r)[:140]} on {[(c[0], c[1].name, c[2].value) for c in comps]}", "case": case})
        return
    ds = r["datasets"][0]
    check_mapping({c["name"]: (c["type"], c["role"], c["nullable"]) for c in ds["DataStructure"]}, comps, types, roles, "to_vtl_json", kind, emit, case)
    # ---- semantic_analysis ------------------------------------------------------------------------
    s, r = eng.call(eng.semantic_analysis, f"DS_r <- {name};", structure)
    if s == "exc":
        emit({"v": "viol", "b": f"{kind}/semantic_analysis", "mech": f"mapped-structure-rejected/semantic_analysis/{type(r).__name__}", "what": f"semantic_analysis raised {type(r).__name__}: {str(r)[:140]}", "case": case})
    else:
        inv = {v: k for k, v in VTL2ENG.items()}
        check_mapping({n: (inv.get(c.data_type.__name__, c.data_type.__name__), c.role.value, c.nullable) for n, c in r["DS_r"].components.items()}, comps, types, roles, "semantic_analysis", kind, emit, case)
    if not with_run:
        return
    inv = {v: k for k, v in VTL2ENG.items()}
    df = pd.DataFrame({c[0]: pd.Series([], dtype=object) for c in comps})
    s, r = eng.call(eng.run, f"DS_r <- {name};", structure, {name: df})
    if s == "exc":
        emit({"v": "viol", "b": f"{kind}/run", "mech": f"mapped-structure-rejected/run/{type(r).__name__}", "what": f"run raised {type(r).__name__}: {str(r)[:140]}", "case": case})
    else:
        check_mapping({n: (inv.get(c.data_type.__name__, c.data_type.__name__), c.role.value, c.nullable) for n, c in r["DS_r"].components.items()}, comps, types, roles, "run", kind, emit, case)
    if kind == "schema":
        from pysdmx.io.pd import PandasDataset
        from vtlengine.API import run_sdmx
        try:
            pds = PandasDataset(structure=structure, data=pd.DataFrame({c[0]: pd.Series([], dtype="string") for c in comps}))
        except Exception as e:  # noqa: BLE001
            emit({"v": "inc", "why": f"pysdmx refuses the PandasDataset: {type(e).__name__}"})
            return
        s, r = eng.call(run_sdmx, "DS_r <- DS_1;", [pds])
        if s == "exc":
            emit({"v": "viol", "b": f"{kind}/run_sdmx", "mech": f"mapped-structure-rejected/run_sdmx/{type(r).__name__}", "what": f"run_sdmx raised {type(r).__name__}: {str(r)[:140]}", "case": case})
        else:
            check_mapping({n: (inv.get(c.data_type.__name__, c.data_type.__name__), c.role.value, c.nullable) for n, c in r["DS_r"].components.items()}, comps, types, roles, "run_sdmx", kind, emit, case)


def run_shard(spec, emit):
    from pysdmx.model import DataType, Role
    from vf import eng  # noqa: F401
    types, roles = docs_tables()
    rng = random.Random(f"C27-{spec['seed']}-{spec['shard']}")
    if spec["shard"] == 0:
        emit({"v": "info", "k": "documented_type_table", "val": types})
        emit({"v": "info", "k": "enum_members_without_documented_mapping", "val": sorted(d.value for d in DataType if d.value not in types)})
    k = 0
    for dt, role, kind in itertools.product(list(DataType), list(Role), ["schema", "dsd", "dataflow"]):
        k += 1
        if k % spec["nshards"] != spec["shard"]:
            continue
        comps = [("DIM_0", Role.DIMENSION, DataType.STRING)] if role != Role.DIMENSION else []
        comps.append((f"C_{dt.name}", role, dt))
        case = {"comps": [(c[0], c[1].name, c[2].name) for c in comps], "kind": kind}
        try:
            st = build(kind, comps)
        except Exception as e:  # noqa: BLE001
            emit({"v": "inc", "why": f"pysdmx cannot build the structure: {type(e).__name__}"})
            continue
        observe(st, comps, kind, types, roles, emit, case, with_run=(k % 3 == 0 or spec["tier"] == "thorough"))
    mapped = [d for d in DataType if d.value in types]
    for _ in range(6 if spec["tier"] == "quick" else 60):
        n = rng.randint(1, 5)
        comps = []
        for i in range(n):
            role = Role.DIMENSION if i == 0 else rng.choice(list(Role))
            comps.append((f"C{i}", role, rng.choice(mapped)))
        kind = rng.choice(["schema", "dsd", "dataflow"])
        try:
            st = build(kind, comps)
        except Exception:  # noqa: BLE001
            continue
        observe(st, comps, kind, types, roles, emit, {"comps": [(c[0], c[1].name, c[2].name) for c in comps], "kind": kind}, with_run=True)


def replay(case, emit):
    emit({"v": "inc", "why": "C27 is exhaustive over a finite enum: re-run the check; point: " + str(case)[:200]})
