"""C13 — dataset load/release schedule is safe and results are selected correctly.

Monitor: the DuckDB connection proxy records every SQL call of run(); the event log is replayed against an
abstract table store (which tables are live) while the returned values are compared with an arithmetic model.
Workload: all dependency graphs up to a bound (each statement reads any subset of earlier results and any subset of
the global inputs, every persistence mask), in shuffled textual order, plus corpus scripts."""
import itertools
import random
import re

ID = "C13"
LEVEL = "exploration"
RULE = ("enumerated dependency graphs (statement j reads any subset of results 1..j-1 and of up to 3-4 global inputs; "
        "every persistence mask; both return_only_persistent settings; shuffled textual order) executed by run() under a "
        "DuckDB connection proxy; the recorded create/drop/fetch events are replayed against an abstract table store: "
        "no read of a table that is not live, inputs created at most once, non-returned intermediates dropped exactly once "
        "and never before their last reader, nothing fetched that is not live, returned names = persistent (or all) "
        "assignments, returned values = arithmetic model. Corpus scripts: same replay with readers taken from the SQL text. "
        "Bucket = (n statements, edge pattern, persistence mask, input attachment, return_only_persistent); trivial = a "
        "single statement without intermediate.")
ASSUMPTIONS = ["table reads are recognised as quoted known dataset names inside the SQL text of a statement",
               "DuckDB's own catalogue errors are a second monitor: a read of a missing table makes run() raise"]
FLOORS = {"quick": (250, 60), "thorough": (8000, 400)}
REQUIRED_COUNTERS = {"db_events": 2000, "proxy_entered": 250}
NSH = 16

COMPS = [("Id_1", "Integer", "Identifier", False), ("Me_1", "Number", "Measure", True)]
KEYS = [1, 2, 3]


def enum_graphs(n, n_inputs):
    """All graphs with n statements: for each statement a subset of earlier results and a subset of inputs
    (non-empty union)."""
    per_stmt = []
    for j in range(n):
        opts = []
        for res_mask in range(1 << j):
            for in_mask in range(1 << n_inputs):
                if res_mask == 0 and in_mask == 0:
                    continue
                opts.append((res_mask, in_mask))
        per_stmt.append(opts)
    return per_stmt


def shards(tier, seed):
    return [{"shard": i, "nshards": NSH} for i in range(NSH)]


def case_iter(tier, seed, shard, nshards):
    """Deterministic enumeration; exhaustive for n<=3 (2 inputs) in quick, n<=4 in thorough; sampled beyond."""
    rng = random.Random(f"C13-{seed}-{shard}")
    idx = 0
    bounds = [(1, 2), (2, 2), (3, 2)] if tier == "quick" else [(1, 2), (2, 2), (3, 2), (3, 3), (4, 2)]
    for n, ni in bounds:
        per_stmt = enum_graphs(n, ni)
        for combo in itertools.product(*per_stmt):
            if n == 4 and tier == "thorough":
                masks = [rng.randrange(1 << n)]     # 4 statements: every graph, one random persistence mask each
            else:
                masks = range(1 << n)
            for pmask in masks:
                idx += 1
                if idx % nshards != shard:
                    continue
                if n == 3 and tier == "quick" and rng.random() < 0.88:
                    continue        # quick samples an eighth of the 3-statement space; thorough takes all of it
                yield {"n": n, "ni": ni, "g": [list(c) for c in combo], "pmask": pmask,
                       "rop": rng.random() < 0.5, "perm": rng.randrange(1 << 30),
                       "exhaustive_class": True, "out": rng.choice([None, None, None, "csv", "parquet"]),
                       "alias": rng.choice([None, None, None] + [f"S{k + 1}" for k in range(n)])}
    # sampled larger graphs
    extra = 40 if tier == "quick" else 1500
    for _ in range(extra):
        n = rng.choice([4, 5, 6])
        ni = rng.choice([1, 2, 3, 4])
        g = []
        for j in range(n):
            while True:
                rm = rng.randrange(1 << j) if j else 0
                if j and rng.random() < 0.5:
                    rm &= rng.randrange(1 << j)
                im = rng.randrange(1 << ni)
                if rm or im:
                    break
            g.append([rm, im])
        yield {"n": n, "ni": ni, "g": g, "pmask": rng.randrange(1 << n), "rop": rng.random() < 0.5,
               "perm": rng.randrange(1 << 30), "exhaustive_class": False, "out": rng.choice([None, None, "csv", "parquet"]),
               "alias": rng.choice([None, None] + [f"S{k + 1}" for k in range(n)])}


def build(case):
    n, ni = case["n"], case["ni"]
    stmts = []
    for j, (rm, im) in enumerate(case["g"]):
        ops = [f"S{i + 1}" for i in range(j) if rm >> i & 1] + [f"IN_{i + 1}" for i in range(ni) if im >> i & 1]
        arrow = "<-" if case["pmask"] >> j & 1 else ":="
        stmts.append(f"S{j + 1} {arrow} {' + '.join(ops)} + {10 ** j};")
    if case.get("alias"):
        # an extra statement that joins two inputs under an alias spelled like a result of the script: the alias is local to
        # that statement and must not hide the later statements' reads of the result with that name
        stmts.append(f"J0 := inner_join(IN_1 as {case['alias']}, IN_1 as Zq keep {case['alias']}#Me_1);")
    order = list(range(len(stmts)))
    random.Random(case["perm"]).shuffle(order)
    if case.get("alias"):
        order.remove(n)
        order.insert(0, n)          # written first: the alias is 'seen' before the statements that use the real name
    script = "\n".join(stmts[i] for i in order)
    return script, stmts


def input_rows(i):
    return [(k, float((i + 1) * 100 + k)) for k in KEYS]


def model_values(case):
    vals = {}
    ins = {f"IN_{i + 1}": {k: v for k, v in input_rows(i)} for i in range(case["ni"])}
    for j, (rm, im) in enumerate(case["g"]):
        out = {}
        for k in KEYS:
            s = float(10 ** j)
            for i in range(j):
                if rm >> i & 1:
                    s += vals[f"S{i + 1}"][k]
            for i in range(case["ni"]):
                if im >> i & 1:
                    s += ins[f"IN_{i + 1}"][k]
            out[k] = s
        vals[f"S{j + 1}"] = out
    return vals


_QNAME = re.compile(r'"([^"]+)"')


def check_log(log, known, readers_of=None):
    """Replay the proxy log against an abstract table store.
    known: set of dataset names (inputs + results). readers_of: {stmt: set(names)} if known by construction.
    Returns (problems, stats)."""
    from vf.eng import classify_sql
    live = set()
    created = {}
    dropped = {}
    last_read = {}
    problems = []
    pos = 0
    fetched = []
    for kind, text in log:
        pos += 1
        if kind == "close":
            continue
        if kind not in ("execute", "sql"):
            continue
        k, name = classify_sql(text)
        if k == "load-create" and name in known:
            created[name] = created.get(name, 0) + 1
            if name in live:
                problems.append(("create-while-live", name))
            live.add(name)
        elif k == "stmt" and name in known:
            body = text.split(" AS ", 1)[1] if " AS " in text else text
            reads = {m for m in _QNAME.findall(body) if m in known and m != name}
            if readers_of is not None and name in readers_of:
                # by construction; names that merely look like components are excluded this way
                reads = set(readers_of[name])
            for r in reads:
                if r not in live:
                    problems.append(("read-of-non-live-table", f"{name} reads {r}"))
                last_read[r] = pos
            created[name] = created.get(name, 0) + 1
            if name in live:
                problems.append(("create-while-live", name))
            live.add(name)
        elif k == "drop" and name in known:
            dropped.setdefault(name, []).append(pos)
            if name not in live:
                problems.append(("drop-of-non-live-table", name))
            live.discard(name)
        elif k in ("select", "copy"):
            for m in _QNAME.findall(text):
                if m in known:
                    if m not in live:
                        problems.append(("fetch-of-non-live-table", m))
                    fetched.append(m)
    for name, poss in dropped.items():
        if name in last_read and poss[0] < last_read[name]:
            problems.append(("dropped-before-last-reader", name))
    return problems, {"live_at_close": sorted(live), "created": created, "dropped": dropped, "fetched": fetched}


def run_case(case, emit):
    from vf import eng
    eng.install_conn_proxy()
    script, stmts = build(case)
    n, ni = case["n"], case["ni"]
    used_inputs = sorted({f"IN_{i + 1}" for (rm, im) in case["g"] for i in range(ni) if im >> i & 1})
    st = eng.structures(*[eng.mkds(nm, COMPS) for nm in [f"IN_{i + 1}" for i in range(ni)]])
    dfs = {f"IN_{i + 1}": eng.mkdf(["Id_1", "Me_1"], input_rows(i)) for i in range(ni)}
    edges = sum(bin(rm).count("1") for rm, _ in case["g"])
    fan = max([sum(1 for (rm, _) in case["g"] if rm >> i & 1) for i in range(n)] or [0])
    shape = "-".join(f"{rm:x}.{im:x}" for rm, im in case["g"])
    bucket = f"n={n}/g={shape}/p={case['pmask']:x}/rop={case['rop']}" if n <= 3 else \
        f"n={n}/edges={edges}/fanout={fan}/p={bin(case['pmask']).count('1')}/rop={case['rop']}/ni={ni}"
    eng.PROXY.reset()
    kw = {}
    if case.get("out"):
        import os
        import shutil
        outdir = os.path.join(eng.SCRATCH, "c13out")
        shutil.rmtree(outdir, ignore_errors=True)
        kw = {"output_folder": outdir, "output_format": case["out"]}
        bucket += f"/out={case['out']}"
    if case.get("alias"):
        bucket += "/alias"
    status, res = eng.call(eng.run, script, st, dfs, return_only_persistent=case["rop"], **kw)
    log = list(eng.PROXY["log"])
    emit({"v": "ctr", "ctr": {"db_events": len(log), "proxy_entered": 1 if log else 0}})
    if status == "exc":
        name, code, _ = eng.exc_info(res)
        emit({"v": "viol", "b": bucket, "mech": f"valid-graph-raises/{name}",
              "what": f"{script!r} raised {name}: {str(res)[:300]}", "case": case})
        return
    known = {f"IN_{i + 1}" for i in range(ni)} | {f"S{j + 1}" for j in range(n)}
    readers = {f"S{j + 1}": {f"S{i + 1}" for i in range(j) if rm >> i & 1} | {f"IN_{i + 1}" for i in range(ni) if im >> i & 1}
               for j, (rm, im) in enumerate(case["g"])}
    if case.get("alias"):
        known.add("J0")
        readers["J0"] = {"IN_1"}
        used_inputs = sorted(set(used_inputs) | {"IN_1"})
    problems, stats = check_log(log, known, readers)
    want = {f"S{j + 1}" for j in range(n) if (not case["rop"]) or (case["pmask"] >> j & 1)}
    if case.get("alias") and not case["rop"]:
        want.add("J0")
    if set(res) != want:
        problems.append(("returned-names", f"returned {sorted(res)} expected {sorted(want)}"))
    for nm in used_inputs:
        if stats["created"].get(nm, 0) > 1:
            problems.append(("input-loaded-more-than-once", nm))
        if stats["created"].get(nm, 0) == 0:
            problems.append(("input-never-loaded", nm))
    for j in range(n):
        nm = f"S{j + 1}"
        if stats["created"].get(nm, 0) != 1:
            problems.append(("statement-executed-n-times", f"{nm} x{stats['created'].get(nm, 0)}"))
        nd = len(stats["dropped"].get(nm, []))
        if nm not in want and nd != 1:
            problems.append(("intermediate-not-released-exactly-once", f"{nm} dropped {nd} times"))
        if nd > 1:
            problems.append(("released-more-than-once", nm))
        if nm in want and nd != 1:
            problems.append(("returned-result-not-released-after-fetch", f"{nm} dropped {nd} times"))
    mv = model_values(case)
    for nm in (want & set(res)) - ({"J0"} | (set(res) if case.get("out") else set())):
        cols, rows, nk = eng.ds_rows(res[nm])
        exp = [(k, mv[nm][k]) for k in KEYS]
        d = eng.same_rowset(rows, exp, 1) if rows is not None and not isinstance(rows, tuple) else "no data"
        if d:
            problems.append(("wrong-values", f"{nm}: {d}"))
    if problems:
        kinds = sorted({p[0] for p in problems})
        emit({"v": "viol", "b": bucket, "mech": "schedule/" + "+".join(kinds[:3]),
              "what": f"{script!r} rop={case['rop']}: {problems[:4]}", "case": case})
    else:
        rec = {"v": "held", "b": bucket if n > 1 else "trivial-single-statement"}
        if n >= 2:
            rec["sample"] = {"script": script, "rop": case["rop"], "events": [
                f"{k}:{nm}" for k, nm in (eng.classify_sql(t) for kk, t in log if kk in ("execute", "sql"))
                if k in ("load-create", "stmt", "drop")][:30]}
        emit(rec)


def make_scalar_case(rng):
    """scripts with scalar statements read by several later statements, inside clauses and at expression level, and
    external scalars (scalar_values) mixed with datasets whose first use is the same statement"""
    ni = rng.randint(1, 3)
    nsc = rng.randint(1, 2)
    stmts = []
    for j in range(nsc):
        stmts.append({"k": "scalar", "name": f"sc{j + 1}", "val": rng.choice([2, 3, 5, 7]), "pers": rng.random() < 0.4})
    ext = rng.random() < 0.5
    scal_names = [s["name"] for s in stmts] + (["sc_in"] if ext else [])
    nds = rng.randint(2, 4)
    for j in range(nds):
        kind = rng.choice(["clause", "clause", "expr-left", "expr-right", "expr2"])
        stmts.append({"k": kind, "name": f"S{j + 1}", "in": f"IN_{rng.randint(1, ni)}", "in2": f"IN_{rng.randint(1, ni)}",
                      "sc": rng.choice(scal_names), "pers": rng.random() < 0.6})
    return {"scalar_family": True, "ni": ni, "stmts": stmts, "ext": ext, "ext_val": rng.choice([2, 4]), "rop": rng.random() < 0.5,
            "perm": rng.randrange(1 << 30)}


def run_scalar_case(case, emit):
    from vf import eng
    eng.install_conn_proxy()
    ni = case["ni"]
    texts, readers, model, known = [], {}, {}, set()
    ins = {f"IN_{i + 1}": {k: v for k, v in input_rows(i)} for i in range(ni)}
    scal = {"sc_in": case["ext_val"]} if case["ext"] else {}
    for s in case["stmts"]:
        arrow = "<-" if s["pers"] else ":="
        nm = s["name"]
        known.add(nm)
        if s["k"] == "scalar":
            texts.append(f"{nm} {arrow} {s['val']} + 0;")
            scal[nm] = s["val"]
            readers[nm] = set()
            continue
        sc, a, b = s["sc"], s["in"], s["in2"]
        if s["k"] == "clause":
            texts.append(f"{nm} {arrow} {a}[calc Me_1 := Me_1 + {sc}];")
            model[nm] = {k: v + scal[sc] for k, v in ins[a].items()}
            readers[nm] = {a, sc}
        elif s["k"] == "expr-left":
            texts.append(f"{nm} {arrow} {sc} * {a};")
            model[nm] = {k: v * scal[sc] for k, v in ins[a].items()}
            readers[nm] = {a, sc}
        elif s["k"] == "expr-right":
            texts.append(f"{nm} {arrow} {a} * {sc};")
            model[nm] = {k: v * scal[sc] for k, v in ins[a].items()}
            readers[nm] = {a, sc}
        else:
            texts.append(f"{nm} {arrow} {sc} * {a} + {b};")
            model[nm] = {k: v * scal[sc] + ins[b][k] for k, v in ins[a].items()}
            readers[nm] = {a, b, sc}
    for r in readers.values():
        r.discard("sc_in")          # external scalars are inlined by the transpiler, never loaded as tables
    order = list(range(len(texts)))
    random.Random(case["perm"]).shuffle(order)
    script = "\n".join(texts[i] for i in order)
    st = eng.structures(*[eng.mkds(f"IN_{i + 1}", COMPS) for i in range(ni)], scalars=[("sc_in", "Integer")] if case["ext"] else None)
    dfs = {f"IN_{i + 1}": eng.mkdf(["Id_1", "Me_1"], input_rows(i)) for i in range(ni)}
    kw = {"scalar_values": {"sc_in": case["ext_val"]}} if case["ext"] else {}
    eng.PROXY.reset()
    status, res = eng.call(eng.run, script, st, dfs, return_only_persistent=case["rop"], **kw)
    log = list(eng.PROXY["log"])
    emit({"v": "ctr", "ctr": {"db_events": len(log), "proxy_entered": 1 if log else 0}})
    kinds = "+".join(sorted({s["k"] for s in case["stmts"]}))
    nread = max([sum(1 for s in case["stmts"] if s.get("sc") == n) for n in scal] or [0])
    bucket = f"scalars/{kinds}/ext={case['ext']}/max_readers={min(nread, 3)}/rop={case['rop']}/pers_scalar={any(s['k'] == 'scalar' and s['pers'] for s in case['stmts'])}"
    pers_clause = any(s["k"] == "clause" and next((x["pers"] for x in case["stmts"] if x["name"] == s["sc"]), False) for s in case["stmts"])
    if status == "exc":
        name, code, _ = eng.exc_info(res)
        emit({"v": "viol", "b": bucket, "mech": f"scalar-schedule/valid-script-raises/{name}/persistent-scalar-read-in-clause={pers_clause}",
              "what": f"{script!r} raised {name}: {str(res)[:240]}", "case": case})
        return
    known |= {f"IN_{i + 1}" for i in range(ni)}
    problems, stats = check_log(log, known, readers)
    want = {s["name"] for s in case["stmts"] if (not case["rop"]) or s["pers"]}
    if set(res) != want:
        problems.append(("returned-names", f"returned {sorted(res)} expected {sorted(want)}"))
    for s in case["stmts"]:
        nm = s["name"]
        nd = len(stats["dropped"].get(nm, []))
        if nm not in want and nd != 1:
            problems.append(("intermediate-not-released-exactly-once", f"{nm} dropped {nd} times"))
        if nd > 1:
            problems.append(("released-more-than-once", nm))
    for nm in want & set(res):
        obj = res[nm]
        if nm in model:
            cols, rows, nk = eng.ds_rows(obj)
            d = eng.same_rowset(rows, [(k, float(v)) for k, v in model[nm].items()], 1)
            if d:
                problems.append(("wrong-values", f"{nm}: {d}"))
        elif not eng.close(eng.norm(obj.value), scal[nm]):
            problems.append(("wrong-values", f"scalar {nm} = {obj.value!r} expected {scal[nm]}"))
    if problems:
        kinds_p = sorted({p[0] for p in problems})
        emit({"v": "viol", "b": bucket, "mech": "scalar-schedule/" + "+".join(kinds_p[:3]), "what": f"{script!r} rop={case['rop']}: {problems[:4]}", "case": case})
    else:
        emit({"v": "held", "b": bucket, "sample": {"script": script, "rop": case["rop"]}})


def run_corpus_case(c, emit):
    """Event-log replay for one corpus script (readers from the SQL text; results are not modelled here)."""
    from vf import corpus, eng
    eng.install_conn_proxy()
    try:
        kw = corpus.run_kwargs(c)
    except Exception as e:  # noqa: BLE001
        emit({"v": "skip", "why": f"corpus load {type(e).__name__}"})
        return
    eng.PROXY.reset()
    rop = (hash(c["id"]) & 1) == 0
    status, res = eng.call(eng.run, return_only_persistent=rop, **kw)
    log = list(eng.PROXY["log"])
    emit({"v": "ctr", "ctr": {"db_events": len(log), "proxy_entered": 1 if log else 0, "corpus_runs": 1}})
    if status == "exc":
        emit({"v": "skip", "why": "corpus case does not run: " + type(res).__name__})
        return
    from vtlengine.API import create_ast
    from vtlengine.AST.DAG import DAGAnalyzer
    sched = DAGAnalyzer.ds_structure(create_ast(kw["script"]))
    known = set(sched.global_inputs) | set(sched.all_outputs)
    problems, stats = check_log(log, known, None)
    persistent = set(sched.persistent)
    want = persistent if rop else set(sched.all_outputs)
    if set(res) != want:
        problems.append(("returned-names", f"returned {sorted(res)[:6]} expected {sorted(want)[:6]}"))
    for nm in sched.all_outputs:
        nd = len(stats["dropped"].get(nm, []))
        if nd > 1:
            problems.append(("released-more-than-once", nm))
        if nm not in want and nd != 1:
            problems.append(("intermediate-not-released-exactly-once", f"{nm} dropped {nd} times"))
    for nm in sched.global_inputs:
        if stats["created"].get(nm, 0) > 1:
            problems.append(("input-loaded-more-than-once", nm))
    nst = len(sched.all_outputs)
    bucket = f"corpus/{c['area'].split('/')[0]}/stmts={min(nst, 9)}/rop={rop}"
    if problems:
        kinds = sorted({p[0] for p in problems})
        emit({"v": "viol", "b": bucket, "mech": "corpus-schedule/" + "+".join(kinds[:3]),
              "what": f"{c['id']}: {problems[:4]}", "case": {"corpus": c, "rop": rop}})
    else:
        emit({"v": "held", "b": bucket if nst > 1 else "trivial-single-statement"})


def run_shard(spec, emit):
    from vf import corpus, eng
    bud = eng.Budget(spec.get("budget_s", 150 if spec["tier"] == "quick" else 2400))
    srng = random.Random(f"C13s-{spec['seed']}-{spec['shard']}")
    for _ in range(12 if spec["tier"] == "quick" else 400):
        run_scalar_case(make_scalar_case(srng), emit)
    for case in case_iter(spec["tier"], spec["seed"], spec["shard"], spec["nshards"]):
        if not bud.ok():
            emit({"v": "inc", "why": "graph enumeration cut by wall-clock budget"})
            break
        run_case(case, emit)
    cs = [c for c in corpus.scan() if not c["area"].startswith("BigProjects")]
    step = 12 if spec["tier"] == "quick" else 1
    mine = [c for i, c in enumerate(cs) if i % spec["nshards"] == spec["shard"]][::step]
    for c in mine:
        if not bud.ok():
            emit({"v": "inc", "why": "corpus part cut by wall-clock budget"})
            break
        run_corpus_case(c, emit)


def replay(case, emit):
    if "corpus" in case:
        run_corpus_case(case["corpus"], emit)
    elif case.get("scalar_family"):
        run_scalar_case(case, emit)
    else:
        run_case(case, emit)
