"""C15 — results are deterministic and independent of engine configuration.
Monitor: the same run() under every setting of the documented execution knobs (set through os.environ between
runs, as documented) must return the same set of datapoints as the reference configuration; repeated runs too."""
import os
import random

ID = "C15"
LEVEL = "exploration"
RULE = ("order-sensitive-if-miscompiled scripts (union first-occurrence with overlapping keys, set operators, aggregates, "
        "joins, analytics over a total order, rank, time series) on generated inputs of 10^5 rows (quick) / 10^6 rows (thorough) "
        "given as CSV or Parquet files so DuckDB parallelises, plus corpus scripts on their own data; each under "
        "VTL_THREADS in {1,2,4,16} x VTL_USE_IN_MEMORY_DB in {1,0} x VTL_MEMORY_LIMIT in {default,64MB (quick: 256MB for the big "
        "inputs)} x two temp directories, and 3 repetitions of the reference configuration. Oracle: every run that completes "
        "returns the same structure and the same multiset of datapoints (order-insensitive hash over rows, numbers rounded "
        "to 6 decimals) as the reference run; a run that does not complete under the memory limit is recorded, not judged. "
        "Bucket = (script family, threads, db mode, memory limit, rows class); one evaluation = one configuration compared.")
ASSUMPTIONS = ["runs that fail with an out-of-memory error under the reduced memory limit are 'did not complete' (the statement allows that)"]
FLOORS = {"quick": (250, 40), "thorough": (600, 60)}
SHARD_TIMEOUT = {"quick": 1200, "thorough": 7200}      # large generated inputs: one script under the whole configuration grid can take minutes on a loaded machine
NSH = 16

COMPS = [("Id_1", "Integer", "Identifier", False), ("Id_2", "String", "Identifier", False),
         ("Me_1", "Number", "Measure", True), ("Me_2", "String", "Measure", True)]
SCRIPTS = [
    ("union", "DS_r <- union(DS_1, DS_2);"),
    ("union-rev", "DS_r <- union(DS_2, DS_1);"),
    ("union3", "DS_r <- union(DS_2[filter Id_1 > 10], DS_1, DS_2);"),
    ("intersect", "DS_r <- intersect(DS_1, DS_2);"),
    ("symdiff", "DS_r <- symdiff(DS_1, DS_2);"),
    ("setdiff", "DS_r <- setdiff(DS_1, DS_2);"),
    ("sum-group", "DS_r <- DS_1[aggr Me_3 := sum(Me_1), Me_4 := count(Me_2), Me_5 := max(Me_2) group by Id_2];"),
    ("median-group", "DS_r <- DS_1[aggr Me_3 := median(Me_1), Me_4 := avg(Me_1) group by Id_2];"),
    ("group-except", "DS_r <- sum(DS_1[keep Me_1] group except Id_2);"),
    ("inner-join", "DS_r <- inner_join(DS_1 as a, DS_2 as b keep a#Me_1, b#Me_2);"),
    ("left-join", "DS_r <- left_join(DS_1 as a, DS_2 as b keep a#Me_1, b#Me_2);"),
    ("full-join", "DS_r <- full_join(DS_1 as a, DS_2 as b keep a#Me_1, b#Me_2);"),
    ("binop", "DS_r <- DS_1[keep Me_1] * DS_2[keep Me_1];"),
    ("running-sum", "DS_r <- DS_1[calc Me_3 := sum(Me_1 over (partition by Id_2 order by Id_1 data points between 2 preceding and current data point))];"),
    ("lag-rank", "DS_r <- DS_1[calc Me_3 := lag(Me_1, 1 over (partition by Id_2 order by Id_1)), Me_4 := rank(over (partition by Id_2 order by Id_1 desc))];"),
    ("first-last", "DS_r <- DS_1[calc Me_3 := first_value(Me_1 over (partition by Id_2 order by Id_1)), Me_4 := last_value(Me_2 over (partition by Id_2 order by Id_1))];"),
    ("filter-multi", "DS_a := DS_1[filter Me_1 > 0]; DS_b := DS_2[calc Me_3 := Me_1 + 1]; DS_r <- union(DS_a, DS_b[drop Me_3]); DS_s <- count(DS_a group by Id_2);"),
    ("exists_in", "DS_r <- exists_in(DS_1, DS_2, all);"),
    ("check", "DS_r <- check(DS_1[keep Me_1] >= DS_2[keep Me_1] imbalance DS_1[keep Me_1] - DS_2[keep Me_1] invalid);"),
    ("having", "DS_r <- DS_1[aggr Me_3 := sum(Me_1) group by Id_1 having count(Me_2) > 2];"),
    # computed code items replace stale operand values ('all' output keeps the computed one): order-sensitive if miscompiled
    ("hierarchy-all", "define hierarchical ruleset hr (variable rule Id_2) is a = b + c; d = a - e end hierarchical ruleset; "
                      "DS_r <- hierarchy(DS_1[keep Me_1], hr rule Id_2 non_null all);"),
    ("hierarchy-partial", "define hierarchical ruleset hr (variable rule Id_2) is a = b + c + d end hierarchical ruleset; "
                          "DS_r <- hierarchy(DS_1[keep Me_1], hr rule Id_2 partial_zero rule_priority all); DS_s <- hierarchy(DS_1[keep Me_1], hr rule Id_2 always_null computed);"),
    ("check-hierarchy", "define hierarchical ruleset hr (variable rule Id_2) is a = b + c errorcode \"E\" errorlevel 1; e >= d end hierarchical ruleset; "
                        "DS_r <- check_hierarchy(DS_1[keep Me_1], hr rule Id_2 partial_null all);"),
    ("check-datapoint", "define datapoint ruleset dpr (variable Me_1, Me_2) is r1: when Me_2 = \"x\" then Me_1 > 0 errorcode \"neg\"; r2: Me_1 < 1000 errorlevel 2 end datapoint ruleset; "
                        "DS_r <- check_datapoint(DS_1, dpr all);"),
]


def shards(tier, seed):
    return [{"shard": i, "nshards": NSH} for i in range(NSH)]


def make_inputs(n, seed, workdir, fmt):
    """Two files with partially overlapping keys and conflicting measures (written with DuckDB for speed)."""
    import duckdb
    con = duckdb.connect(":memory:")
    strs = "['x','yy','','Zed','q9']"
    out = {}
    for name, off, mult in (("DS_1", 0, 1.0), ("DS_2", n // 3, -2.0)):
        p = os.path.join(workdir, f"{name}.{fmt}")
        sql = (f"SELECT (i // 5 + {off})::BIGINT AS Id_1, ['a','b','c','d','e'][(i % 5) + 1] AS Id_2, "
               f"CASE WHEN (i * 7 + {seed}) % 11 = 0 THEN NULL ELSE round((((i * 37 + {seed}) % 20011) / 7.0 - 1400) * {mult}, 4) END AS Me_1, "
               f"CASE WHEN (i + {seed}) % 13 = 0 THEN NULL ELSE {strs}[((i * 3 + {seed}) % 5) + 1] END AS Me_2 "
               f"FROM range({n}) t(i) ORDER BY hash(i + {seed})")
        if fmt == "csv":
            con.execute(f"COPY ({sql}) TO '{p}' (FORMAT CSV, HEADER, FORCE_QUOTE (Me_2))")
        else:
            con.execute(f"COPY ({sql}) TO '{p}' (FORMAT PARQUET)")
        from pathlib import Path
        out[name] = Path(p)
    con.close()
    return out


def fast_digest(res):
    import pandas as pd
    from vtlengine.Model import Dataset
    out = {}
    for name, obj in res.items():
        if isinstance(obj, Dataset):
            df = obj.data
            struct = tuple((n, c.data_type.__name__, c.role.value, c.nullable) for n, c in obj.components.items())
            if df is None:
                out[name] = (struct, None, None)
                continue
            d2 = df.copy()
            for c in d2.columns:
                if str(d2[c].dtype).lower().startswith(("float", "double")):
                    d2[c] = d2[c].round(6)
            h = int(pd.util.hash_pandas_object(d2.astype(str), index=False).sum()) if len(d2) else 0
            out[name] = (struct, len(d2), h)
        else:
            out[name] = ("scalar", obj.data_type.__name__, repr(obj.value))
    return out


CONFIGS = [(t, mem, lim, td) for t in (1, 2, 4, 16) for mem in ("1", "0") for lim in (None, "low") for td in (0,)] + \
          [(4, "1", None, 1), (2, "0", None, 1)]


def apply_config(cfg, low_limit, alt_tmp):
    t, mem, lim, td = cfg
    os.environ["VTL_THREADS"] = str(t)
    os.environ["VTL_USE_IN_MEMORY_DB"] = mem
    if lim:
        os.environ["VTL_MEMORY_LIMIT"] = low_limit
    else:
        os.environ.pop("VTL_MEMORY_LIMIT", None)
    os.environ["VTL_TEMP_DIRECTORY"] = alt_tmp[td]


def compare_configs(label, fam, kw, rows_class, low_limit, emit, case):
    from vf import eng
    base_tmp = os.environ["VTL_TEMP_DIRECTORY"]
    alt = os.path.join(eng.SCRATCH, "alt tmp dir")
    os.makedirs(alt, exist_ok=True)
    saved = {k: os.environ.get(k) for k in ("VTL_THREADS", "VTL_USE_IN_MEMORY_DB", "VTL_MEMORY_LIMIT", "VTL_TEMP_DIRECTORY")}
    try:
        apply_config((1, "1", None, 0), low_limit, (base_tmp, alt))
        s0, r0 = eng.call(eng.run, **kw)
        if s0 == "exc":
            emit({"v": "skip", "why": f"reference configuration rejected ({fam}): {type(r0).__name__} {str(r0)[:80]}"})
            return
        d0 = fast_digest(r0)
        for rep in range(2):
            s, r = eng.call(eng.run, **kw)
            ok = s == "ok" and fast_digest(r) == d0
            b = f"{fam}/repeat/{rows_class}"
            if ok:
                emit({"v": "held", "b": b})
            else:
                emit({"v": "viol", "b": b, "mech": f"{fam.split(':')[0]}/repeated-run-differs",
                      "what": f"{label}: repetition {rep + 2} of the same configuration differs or failed ({s})", "case": case})
        for cfg in CONFIGS:
            apply_config(cfg, low_limit, (base_tmp, alt))
            s, r = eng.call(eng.run, **kw)
            tag = f"threads={cfg[0]}/mem_db={cfg[1]}/limit={'low' if cfg[2] else 'default'}/tmp={cfg[3]}"
            b = f"{fam}/{tag}/{rows_class}"
            if s == "exc":
                msg = str(r).lower()
                if cfg[2] and ("memory" in msg or "out of" in msg or "could not allocate" in msg):
                    emit({"v": "ctr", "ctr": {"did_not_complete_under_memory_limit": 1}})
                    emit({"v": "inc", "why": "run did not complete under the reduced memory limit"})
                    continue
                emit({"v": "viol", "b": b, "mech": f"{fam.split(':')[0]}/config-makes-run-fail/{type(r).__name__}",
                      "what": f"{label} under {tag}: {type(r).__name__}: {str(r)[:200]} (reference configuration succeeds)", "case": dict(case, cfg=list(cfg))})
                continue
            d = fast_digest(r)
            if d != d0:
                diff = [k for k in d0 if d.get(k) != d0[k]]
                emit({"v": "viol", "b": b, "mech": f"{fam.split(':')[0]}/result-depends-on-configuration",
                      "what": f"{label} under {tag}: results differ from threads=1/in-memory/default in {diff[:3]}: {[(d.get(k), d0[k]) for k in diff[:1]]}",
                      "case": dict(case, cfg=list(cfg))})
            else:
                emit({"v": "held", "b": b, "sample": {"case": label, "config": tag, "rows": rows_class,
                                                      "result_rows": {k: v[1] for k, v in d.items() if isinstance(v[0], tuple)}}})
    finally:
        for k, v in saved.items():
            if v is None:
                os.environ.pop(k, None)
            else:
                os.environ[k] = v


def small_frames(fam, script, st, emit, n=600, reps=4):
    import numpy as np
    import pandas as pd
    from vf import eng
    letters = np.array(["a", "b", "c", "d", "e"])
    ids = np.arange(n)
    ds1 = pd.DataFrame({"Id_1": ids // 5, "Id_2": letters[ids % 5], "Me_1": (ids % 7).astype(float), "Me_2": np.array(["x", "yy", "Zed"])[ids % 3]})
    ds2 = ds1.copy()
    ds2["Me_1"] = ds2["Me_1"] * -2.0 - 1.0
    ds2["Me_2"] = "q9"
    kw = {"script": script, "data_structures": st, "datapoints": {"DS_1": ds1, "DS_2": ds2}, "return_only_persistent": False}
    saved = os.environ.get("VTL_THREADS")
    try:
        os.environ["VTL_THREADS"] = "1"
        s0, r0 = eng.call(eng.run, **kw)
        if s0 == "exc":
            emit({"v": "skip", "why": f"small-frame reference rejected ({fam})"})
            return
        d0 = fast_digest(r0)
        for t in (2, 4, 16):
            bad = None
            for _ in range(reps):
                os.environ["VTL_THREADS"] = str(t)
                s, r = eng.call(eng.run, **kw)
                if s == "exc" or fast_digest(r) != d0:
                    bad = f"{type(r).__name__}: {str(r)[:120]}" if s == "exc" else "results differ from the threads=1 run"
                    break
            b = f"gen:{fam}/small-frames/threads={t}"
            if bad:
                emit({"v": "viol", "b": b, "mech": "gen/result-depends-on-configuration", "what": f"{script} on {n}-row DataFrames under threads={t}: {bad}",
                      "case": {"small": [fam, script, n]}})
            else:
                emit({"v": "held", "b": b, "sample": {"case": script, "config": f"threads={t} x{reps}", "rows": n}})
    finally:
        if saved is None:
            os.environ.pop("VTL_THREADS", None)
        else:
            os.environ["VTL_THREADS"] = saved


def run_shard(spec, emit):
    import shutil
    from vf import corpus, eng, rider
    tier = spec["tier"]
    rng = random.Random(f"C15-{spec['seed']}-{spec['shard']}")
    bud = eng.Budget(spec.get("budget_s", 110 if tier == "quick" else 2400))
    n = 100_000 if tier == "quick" else 1_000_000
    work = os.path.join(eng.SCRATCH, "c15data")
    os.makedirs(work, exist_ok=True)
    st = eng.structures(eng.mkds("DS_1", COMPS), eng.mkds("DS_2", COMPS))
    # the first pass over the 16 shards takes one script per family of SQL shape; the remaining ones come second, budget permitting
    first = ["hierarchy-all", "hierarchy-partial", "check-hierarchy", "check-datapoint", "union", "union3", "filter-multi", "sum-group", "median-group",
             "inner-join", "full-join", "running-sum", "lag-rank", "first-last", "symdiff", "exists_in"]
    by_name = dict(SCRIPTS)
    ordered = [(f, by_name[f]) for f in first] + [x for x in SCRIPTS if x[0] not in first]
    mine = [s for i, s in enumerate(ordered) if i % spec["nshards"] == spec["shard"]]
    if tier == "thorough":
        mine = mine + [SCRIPTS[(spec["shard"] + 7) % len(SCRIPTS)]]
    # every script of the shard first on small in-memory DataFrames with sorted, fully overlapping keys (operand pipelines of
    # equal size finish in either order), repeated: cheap, and schedule-dependent outcomes show up here first
    for fam, script in mine:
        small_frames(fam, script, st, emit)
    for j, (fam, script) in enumerate(mine):
        if not bud.ok():
            break
        fmt = "parquet" if (spec["shard"] + j) % 2 else "csv"
        # the final de-duplication of hierarchy(all) only spans several morsels from ~50 000 groups on
        nn = 300_000 if tier == "quick" and fam.startswith("hierarchy") else n
        dps = make_inputs(nn, spec["seed"] * 101 + spec["shard"], work, fmt)
        kw = {"script": script, "data_structures": st, "datapoints": dps, "return_only_persistent": False}
        compare_configs(f"{script} on {nn} rows ({fmt})", f"gen:{fam}", kw, f"rows=1e{len(str(nn)) - 1}", "256MB" if nn >= 100_000 else "64MB", emit,
                        {"gen": [fam, script, nn, fmt, spec["seed"] * 101 + spec["shard"]]})
    shutil.rmtree(work, ignore_errors=True)
    for c in rider.corpus_slice(spec, quick_fraction=40, tag="C15")[: (3 if tier == "quick" else 12)]:
        if not bud.ok():
            emit({"v": "inc", "why": "cut by wall-clock budget"})
            break
        try:
            kw = corpus.run_kwargs(c)
        except Exception:  # noqa: BLE001
            continue
        kw["return_only_persistent"] = False
        compare_configs(c["id"], f"corpus:{c['area'].split('/')[0]}", kw, "rows=corpus", "64MB", emit, {"corpus": c})


def replay(case, emit):
    from vf import corpus, eng
    if "small" in case:
        fam, script, n = case["small"]
        small_frames(fam, script, eng.structures(eng.mkds("DS_1", COMPS), eng.mkds("DS_2", COMPS)), emit, n=n, reps=12)
    elif "corpus" in case:
        kw = corpus.run_kwargs(case["corpus"])
        kw["return_only_persistent"] = False
        compare_configs(case["corpus"]["id"], "corpus", kw, "rows=corpus", "64MB", emit, case)
    else:
        fam, script, n, fmt, seed = case["gen"]
        work = os.path.join(eng.SCRATCH, "c15data")
        os.makedirs(work, exist_ok=True)
        st = eng.structures(eng.mkds("DS_1", COMPS), eng.mkds("DS_2", COMPS))
        kw = {"script": script, "data_structures": st, "datapoints": make_inputs(n, seed, work, fmt), "return_only_persistent": False}
        compare_configs(script, f"gen:{fam}", kw, "rows", "256MB", emit, case)
