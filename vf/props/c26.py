"""C26 — every VTL error raised carries a catalogued code and renders its message (dynamic half).
Monitor: runtime contracts on the constructors of the coded exception classes (SemanticError, RunTimeError,
DataLoadError, InputValidationException): precondition code in the catalogue and kwargs cover the message's
placeholders; postcondition the constructor itself did not fail and the rendered message holds no unfilled
placeholder. A census records the distinct raise sites (file:line of the constructing frame) and codes reached."""
import os
import random
import re
import string

ID = "C26"
LEVEL = "exploration"
RULE = ("constructor contracts evaluated on every coded VTL exception constructed while running: the whole corpus (including "
        "the upstream expected-error scripts), the run-time failure families of C32, a sweep of one-line scripts over all operand "
        "type pairs for ~60 operator templates at component and dataset level (drives the semantic error sites), malformed "
        "structures / inputs / value domains / routines / SDMX arguments (drives the input-validation and data-load sites). "
        "One evaluation = one constructor call checked; bucket = (exception class, code). Reached raise sites are reported "
        "against a textual scan of the source (denominator only: a site that is never executed is invisible to this monitor).")
ASSUMPTIONS = ["only the dynamic half of the property is decided: raise sites no workload reaches are counted as not covered"]
FLOORS = {"quick": (1500, 60), "thorough": (8000, 90)}
NSH = 16

_FMT = string.Formatter()


def shards(tier, seed):
    return [{"shard": i, "nshards": NSH} for i in range(NSH)]


def placeholders(msg):
    out = set()
    for _, field, _, _ in _FMT.parse(msg):
        if field:
            out.add(re.split(r"[.\[]", field)[0])
    return out


class Monitor:
    def __init__(self):
        self.events = []
        self.sites = set()
        self.n = 0
        self.shadowed = set()
        self.shadow_n = 0

    HOSTILE = ["DS{r}", "{0}", "100%s", "a{b", "}{"]

    def shadow(self, cls, orig, a, k, code, site):
        import vtlengine.Exceptions as EX
        ctx = getattr(EX, "_context", None)
        holder, attr = (ctx, "dataset_output") if ctx is not None else (EX, "dataset_output")
        saved = getattr(holder, attr, None)
        try:
            for name in self.HOSTILE:
                setattr(holder, attr, name)
                obj = cls.__new__(cls)
                self.shadow_n += 1
                try:
                    orig(obj, *a, **k)
                except Exception as e:  # noqa: BLE001
                    return ("constructor-fails-when-output-dataset-name-has-format-characters", f"{cls.__name__}({code!r}) at {site} with output dataset {name!r}: {type(e).__name__}: {e}")
                if cls.__name__ != "InputValidationException" and name not in str(obj.args[0]):
                    return ("output-dataset-name-not-rendered-verbatim", f"{cls.__name__}({code!r}) at {site} with output dataset {name!r}: {obj.args[0]!r}")
            setattr(holder, attr, saved)
            hk = {x: (self.HOSTILE[0] if isinstance(y, str) and x not in ("code", "comp_code") else y) for x, y in k.items()}
            obj = cls.__new__(cls)
            self.shadow_n += 1
            try:
                orig(obj, *a, **hk)
            except Exception as e:  # noqa: BLE001
                return ("constructor-fails-when-a-placeholder-value-has-format-characters", f"{cls.__name__}({code!r}) at {site}: {type(e).__name__}: {e}")
        finally:
            setattr(holder, attr, saved)
        return None

    def install(self):
        import sys
        import vtlengine.Exceptions as EX
        from vtlengine.Exceptions.messages import centralised_messages as CAT
        mon = self

        def wrap(cls, code_from):
            orig = cls.__init__

            def init(self_, *a, **k):
                code = code_from(a, k)
                fr = sys._getframe(1)
                site = f"{os.path.basename(fr.f_code.co_filename)}:{fr.f_lineno}"
                if code is None:
                    return orig(self_, *a, **k)
                mon.n += 1
                mon.sites.add(site)
                kwargs = {x: y for x, y in k.items() if x not in ("code", "comp_code", "message", "lino", "colno")}
                problem = None
                if code not in CAT:
                    problem = ("code-not-in-catalogue", f"{cls.__name__}({code!r}) at {site}")
                else:
                    missing = placeholders(CAT[code]["message"]) - set(kwargs)
                    if missing:
                        problem = ("placeholder-not-supplied", f"{cls.__name__}({code!r}) at {site}: message needs {sorted(missing)}, got {sorted(kwargs)}")
                try:
                    orig(self_, *a, **k)
                except Exception as e:  # noqa: BLE001
                    mon.events.append((cls.__name__, code, site, problem or ("constructor-failed", f"{cls.__name__}({code!r}) at {site}: {type(e).__name__}: {e}")))
                    raise
                if problem is None:
                    msg = self_.args[0] if self_.args else ""
                    if not isinstance(msg, str) or not msg:
                        problem = ("empty-message", f"{cls.__name__}({code!r}) at {site}")
                    elif len(self_.args) < 2 or self_.args[1] != code:
                        problem = ("code-not-carried", f"{cls.__name__}({code!r}) at {site}: args={self_.args[1:]}")
                if problem is None and (cls.__name__, code, site) not in mon.shadowed:
                    # shadow constructions of the same error under hostile context: an output-dataset name and
                    # placeholder values that contain format metacharacters must still render
                    mon.shadowed.add((cls.__name__, code, site))
                    problem = mon.shadow(cls, orig, a, k, code, site)
                mon.events.append((cls.__name__, code, site, problem))
            cls.__init__ = init

        first_or_kw = lambda a, k: (a[0] if a else k.get("code"))  # noqa: E731
        wrap(EX.SemanticError, first_or_kw)
        wrap(EX.RunTimeError, first_or_kw)
        wrap(EX.DataLoadError, first_or_kw)
        wrap(EX.InputValidationException, lambda a, k: k.get("code") if "code" in k else (a[3] if len(a) > 3 else None))

    def drain(self, emit, source):
        for cls, code, site, problem in self.events:
            b = f"{cls}/{code}"
            if problem:
                emit({"v": "viol", "b": b, "mech": f"{problem[0]}/{cls}/{code}", "what": problem[1] + f" (while running {source})",
                      "case": {"source": source}})
            else:
                emit({"v": "held", "b": b})
        self.events = []


def scan_sites():
    """textual denominator: constructor calls of the four classes in the source tree"""
    import vboot
    n = 0
    rx = re.compile(r"\b(SemanticError|RunTimeError|DataLoadError|InputValidationException)\s*\(")
    for root, _, files in os.walk(os.path.join(vboot.REPO, "src", "vtlengine")):
        for f in files:
            if f.endswith(".py"):
                for line in open(os.path.join(root, f), encoding="utf-8", errors="replace"):
                    if rx.search(line) and not line.lstrip().startswith(("class ", "#", "from ", "import ")) and "except" not in line and "isinstance" not in line:
                        n += 1
    return n


def site_signatures(emit):
    """Every constructor call site of the four classes found in the source (ast): the real constructor is executed with the
    site's literal code and the site's keyword names (dummy values). Sites with a computed code or **kwargs are counted, not judged."""
    import ast
    import vboot
    import vtlengine.Exceptions as EX
    from vtlengine.Exceptions.messages import centralised_messages as CAT
    names = {"SemanticError", "RunTimeError", "DataLoadError", "InputValidationException"}
    judged = skipped = 0
    root_dir = os.path.join(vboot.REPO, "src", "vtlengine")
    for root, _, files in os.walk(root_dir):
        for f in sorted(files):
            if not f.endswith(".py"):
                continue
            path = os.path.join(root, f)
            try:
                tree = ast.parse(open(path, encoding="utf-8").read())
            except SyntaxError:
                continue
            for node in ast.walk(tree):
                if not isinstance(node, ast.Call):
                    continue
                fn = node.func
                cname = fn.id if isinstance(fn, ast.Name) else fn.attr if isinstance(fn, ast.Attribute) else None
                if cname not in names:
                    continue
                kws = {k.arg: k.value for k in node.keywords if k.arg}
                star = any(k.arg is None for k in node.keywords)
                code_node = node.args[0] if node.args and cname != "InputValidationException" else kws.get("code")
                site = f"{os.path.relpath(path, root_dir)}:{node.lineno}"
                if not (isinstance(code_node, ast.Constant) and isinstance(code_node.value, str)) or star:
                    skipped += 1
                    continue
                code = code_node.value
                kwnames = [k for k in kws if k not in ("code", "comp_code", "message", "lino", "colno")]
                cls = getattr(EX, cname)
                judged += 1
                b = f"site-signature/{cname}/{code}"
                problem = None
                if code not in CAT:
                    problem = ("code-not-in-catalogue", f"{cname}({code!r}) at {site}: the code is not in the message catalogue")
                else:
                    missing = placeholders(CAT[code]["message"]) - set(kwnames)
                    if missing:
                        problem = ("placeholder-not-supplied", f"{cname}({code!r}) at {site}: message needs {sorted(missing)}, the call passes {sorted(kwnames)}")
                if problem is None:
                    try:
                        obj = cls(code, **{k: "x" for k in kwnames}) if cname != "InputValidationException" else cls(code=code, **{k: "x" for k in kwnames})
                        if not obj.args or not isinstance(obj.args[0], str) or not obj.args[0]:
                            problem = ("message-not-rendered", f"{cname}({code!r}) at {site}: {obj.args!r}")
                    except Exception as e:  # noqa: BLE001
                        problem = ("constructor-failed", f"{cname}({code!r}) at {site} with keywords {sorted(kwnames)}: {type(e).__name__}: {e}")
                if problem:
                    emit({"v": "viol", "b": b, "mech": f"site-signature/{problem[0]}/{cname}/{code}", "what": problem[1], "case": {"source": "site signatures"}})
                else:
                    emit({"v": "held", "b": b})
    emit({"v": "info", "k": "site_signatures", "val": {"judged": judged, "not_judged_computed_code_or_star_kwargs": skipped}})


OPS2 = ["{a} + {b}", "{a} - {b}", "{a} * {b}", "{a} / {b}", "{a} || {b}", "{a} = {b}", "{a} <> {b}", "{a} < {b}", "{a} >= {b}", "{a} and {b}", "{a} or {b}",
        "{a} xor {b}", "mod({a}, {b})", "power({a}, {b})", "log({a}, {b})", "round({a}, {b})", "trunc({a}, {b})", "nvl({a}, {b})", "between({a}, {b}, {b})",
        "if {a} then {b} else {b}", "substr({a}, {b}, {b})", "replace({a}, {b}, {b})", "instr({a}, {b})", "datediff({a}, {b})", "dateadd({a}, 1, \"M\")",
        "match_characters({a}, {b})", "{a} in {{1, 2}}", "{a} not_in {{\"x\"}}", "timeshift({a}, 1)", "levenshtein({a}, {b})", "case when {a} then {b} else {b}"]
OPS1 = ["abs({a})", "ceil({a})", "floor({a})", "exp({a})", "ln({a})", "sqrt({a})", "not {a}", "- {a}", "length({a})", "upper({a})", "trim({a})", "isnull({a})",
        "getyear({a})", "getmonth({a})", "dayofmonth({a})", "dayofyear({a})", "period_indicator({a})", "daytoyear({a})", "yeartoday({a})", "time_agg(\"A\", {a})",
        "cast({a}, integer)", "cast({a}, date)", "cast({a}, time_period)", "cast({a}, duration)", "cast({a}, boolean)", "cast({a}, time)", "cast({a}, number)",
        "sum({a})", "avg({a})", "median({a})", "flow_to_stock({a})", "fill_time_series({a})"]
TYPES = ["Integer", "Number", "String", "Boolean", "Date", "Time_Period", "Time", "Duration"]


def type_sweep(shard, nshards, emit, mon, tier):
    from vf import eng
    i = 0
    for t1 in TYPES:
        for t2 in TYPES:
            i += 1
            if i % nshards != shard:
                continue
            comps = [("Id_1", "Integer", "Identifier", False), ("Me_1", t1, "Measure", True), ("Me_2", t2, "Measure", True)]
            one1 = [("Id_1", "Integer", "Identifier", False), ("Me_1", t1, "Measure", True)]
            one2 = [("Id_1", "Integer", "Identifier", False), ("Me_1", t2, "Measure", True)]
            st = eng.structures(eng.mkds("DS_1", comps), eng.mkds("DS_A", one1), eng.mkds("DS_B", one2))
            for tmpl in OPS2 + (OPS1 if t2 == TYPES[0] else []):
                for script in (f"DS_r <- DS_1[calc Me_3 := {tmpl.format(a='Me_1', b='Me_2')}];", f"DS_r <- {tmpl.format(a='DS_A', b='DS_B')};"):
                    eng.call(eng.semantic_analysis, script, st)
            mon.drain(emit, f"type sweep {t1} x {t2}")


def negative_inputs(emit, mon):
    import pandas as pd
    from pathlib import Path
    import vtlengine
    from vf import eng
    A = vtlengine.API
    good = eng.structures(eng.mkds("DS_1", [("Id_1", "Integer", "Identifier", False), ("Me_1", "Number", "Measure", True)]))
    df = eng.mkdf(["Id_1", "Me_1"], [(1, 1.0)])
    calls = [
        (A.run, ("DS_r <- DS_1;", {"datasets": [{"name": "DS_1", "DataStructure": [{"name": "Id_1", "type": "Intger", "role": "Identifier", "nullable": False}]}]}, {"DS_1": df})),
        (A.run, ("DS_r <- DS_1;", {"datasets": [{"name": "DS_1", "DataStructure": [{"name": "Id_1", "type": "Integer", "role": "Identifer", "nullable": False}]}]}, {"DS_1": df})),
        (A.run, ("DS_r <- DS_1;", {"datasets": [{"name": "DS_1"}]}, {"DS_1": df})),
        (A.run, ("DS_r <- DS_1;", {"nothing": []}, {"DS_1": df})),
        (A.run, ("DS_r <- DS_1;", good, {"DS_2": df})),
        (A.run, ("DS_r <- DS_1;", good, {"DS_1": 5})),
        (A.run, ("DS_r <- DS_1;", good, {"DS_1": Path("/nonexistent/x.csv")})),
        (A.run, ("DS_r <- DS_1;", good, [Path("/nonexistent/dir")])),
        (A.run, ("DS_r <- DS_1;", Path("/nonexistent/structure.json"), {"DS_1": df})),
        (A.run, ("DS_r <- DS_1;", good, {"DS_1": eng.mkdf(["Id_1", "Me_1"], [(1, 1.0), (1, 2.0)])})),
        (A.run, ("DS_r <- DS_1;", good, {"DS_1": eng.mkdf(["Id_1", "Me_1"], [(None, 1.0)])})),
        (A.run, ("DS_r <- DS_1;", good, {"DS_1": eng.mkdf(["Id_1", "Me_1"], [("x", 1.0)])})),
        (A.run, ("DS_r <- DS_1;", good, {"DS_1": eng.mkdf(["Me_1"], [(1.0,)])})),
        (A.run, ("DS_r <- DS_1;", good, {"DS_1": eng.mkdf(["Id_1", "Me_1", "Zz"], [(1, 1.0, 2)])})),
        (A.run, (5, good, {"DS_1": df})),
        (A.run, ("DS_r <- DS_2;", good, {"DS_1": df})),
        (A.run, ("DS_r <- DS_1; DS_r <- DS_1;", good, {"DS_1": df})),
        (A.run, ("A := B; B := A;", good, {"DS_1": df})),
        (A.run, ("DS_r <- DS_1 +;", good, {"DS_1": df})),
        (A.run, ("DS_r <- DS_1;", good, {"DS_1": df}), {"time_period_output_format": "bogus"}),
        (A.run, ("DS_r <- DS_1;", good, {"DS_1": df}), {"output_folder": "s3://bucket/x"}),
        (A.run, ("DS_r <- DS_1;", good, {"DS_1": df}), {"output_format": "xlsx", "output_folder": os.path.join(eng.SCRATCH, "o26")}),
        (A.run, ("DS_r <- DS_1[filter Id_1 in VD];", good, {"DS_1": df}), {"value_domains": {"name": "VD", "setlist": [1, 2]}}),
        (A.run, ("DS_r <- DS_1[filter Id_1 in VD];", good, {"DS_1": df}), {"value_domains": {"name": "VD", "type": "Intgr", "setlist": [1, 2]}}),
        (A.run, ("DS_r <- DS_1[filter Id_1 in VD];", good, {"DS_1": df}), {"value_domains": Path("/nonexistent/vd.json")}),
        (A.run, ('DS_r <- eval(R1(DS_1) language "SQL" returns dataset {identifier<integer> Id_1, measure<number> Me_1});', good, {"DS_1": df}),
         {"external_routines": {"name": "R1", "query": "DROP TABLE DS_1;"}}),
        (A.run, ('DS_r <- eval(R1(DS_1) language "SQL" returns dataset {identifier<integer> Id_1, measure<number> Me_1});', good, {"DS_1": df}),
         {"external_routines": {"name": "R2", "query": "SELECT 1"}}),
        (A.run, ('DS_r <- eval(R1(DS_1) language "SQL" returns dataset {identifier<integer> Id_1, measure<number> Me_1});', good, {"DS_1": df}),
         {"external_routines": {"nme": "R1"}}),
        (A.run, ("DS_r <- DS_1;", good, {"DS_1": df}), {"scalar_values": {"nope": 1}}),
        (A.run, ("DS_r <- DS_1 + sc_1;", eng.structures(good["datasets"][0], scalars=[("sc_1", "Integer")]), {"DS_1": df}), {"scalar_values": {"sc_1": "abc"}}),
        (A.run_sdmx, ("DS_r <- DS_1;", "not a list")),
        (A.run_sdmx, ("DS_r <- DS_1;", [df])),
        (A.semantic_analysis, ("DS_r <- DS_1;", 12)),
        (A.semantic_analysis, ("DS_r <- DS_1;", good), {"sdmx_mappings": 7}),
        (A.semantic_analysis, ("DS_r <- DS_1#Me_9;", good)),
        (A.semantic_analysis, ("DS_r <- DS_1[keep Me_9];", good)),
        (A.semantic_analysis, ("DS_r <- DS_1[rename Me_1 to Id_1];", good)),
        (A.semantic_analysis, ("DS_r <- DS_1[calc identifier Id_1 := 3];", good)),
        (A.semantic_analysis, ("DS_r <- DS_1[drop Id_1];", good)),
        (A.semantic_analysis, ("DS_r <- udo(DS_1);", good)),
        (A.semantic_analysis, ("DS_r <- check_datapoint(DS_1, nope);", good)),
        (A.semantic_analysis, ("DS_r <- check_hierarchy(DS_1, nope rule Id_1);", good)),
        (A.semantic_analysis, ("DS_r <- inner_join(DS_1, DS_1);", good)),
        (A.semantic_analysis, ("DS_r <- union(DS_1, DS_1[drop Me_1]);", good)),
        (A.semantic_analysis, ("DS_r <- DS_1[aggr Me_2 := sum(Me_1) group by Me_1];", good)),
        (A.semantic_analysis, ("DS_r <- DS_1[pivot Id_1, Me_1];", good)),
        (A.semantic_analysis, ("DS_r <- cast(DS_1, date, \"YYYY\");", good)),
        (A.semantic_analysis, ("define operator f (x number) returns number is x + 1 end operator; DS_r <- f(DS_1, 2, 3);", good)),
        (A.validate_dataset, (good, {"DS_1": eng.mkdf(["Id_1", "Me_1"], [(1, "abc")])})),
        (A.validate_dataset, (good, {"DS_9": df})),
        (A.validate_dataset, (good, "not/a/path.csv")),
        (A.validate_value_domain, ({"name": "VD"},)),
        (A.validate_external_routine, ({"name": "R", "query": "SELEC x"},)),
        (A.prettify, (7,)),
        (A.generate_sdmx, ("DS_r <- ;", "MD", "x")),
    ]
    bad_csvs = {"dup.csv": "Id_1,Me_1\n1,1\n1,2\n", "nullid.csv": "Id_1,Me_1\n,1\n", "badnum.csv": "Id_1,Me_1\n1,abc\n", "nohdr.csv": "", "noid.csv": "Me_1\n1\n",
                "dupcol.csv": "Id_1,Id_1,Me_1\n1,1,1\n", "extra.csv": "Id_1,Me_1,Zz\n1,1,1\n"}
    d = os.path.join(eng.SCRATCH, "c26")
    os.makedirs(d, exist_ok=True)
    for name, body in bad_csvs.items():
        p = os.path.join(d, name)
        open(p, "w").write(body)
        calls.append((A.run, ("DS_r <- DS_1;", good, {"DS_1": Path(p)})))
        calls.append((A.validate_dataset, (good, {"DS_1": Path(p)})))
    for c in calls:
        fn, a = c[0], c[1]
        k = c[2] if len(c) > 2 else {}
        eng.call(fn, *a, **k)
        mon.drain(emit, f"negative input {fn.__name__}")


def run_shard(spec, emit):
    from vf import corpus, eng, rider
    from vf.props import c32
    tier = spec["tier"]
    bud = eng.Budget(spec.get("budget_s", 100 if tier == "quick" else 2400))
    mon = Monitor()
    if spec["shard"] == 0:
        site_signatures(emit)          # before the wrappers go on: the plain constructors are exercised
    mon.install()
    if spec["shard"] == 0:
        emit({"v": "info", "k": "raise_sites_scanned_textually", "val": scan_sites()})
    if spec["shard"] in (1, 9) or tier == "thorough" and spec["shard"] % 4 == 1:
        negative_inputs(emit, mon)
    type_sweep(spec["shard"], spec["nshards"], emit, mon, tier)
    fams = c32.families()
    sink = lambda r: None  # noqa: E731
    for i, f in enumerate(fams):
        if i % spec["nshards"] == spec["shard"]:
            c32.run_family(f, sink)
            mon.drain(emit, f"runtime family {f['family']}")
    for c in rider.corpus_slice(spec, quick_fraction=4, tag="C26"):
        if not bud.ok():
            emit({"v": "inc", "why": "cut by wall-clock budget"})
            break
        try:
            kw = corpus.run_kwargs(c)
        except Exception:  # noqa: BLE001
            mon.drain(emit, c["id"])
            continue
        eng.call(eng.run, **kw)
        mon.drain(emit, f"corpus {c['id']}")
    emit({"v": "ctr", "ctr": {"constructor_contract_evaluations": mon.n}})
    emit({"v": "info", "k": f"raise_sites_reached_shard_{spec['shard']}", "val": sorted(mon.sites)})


def finish(agg):
    sites = set()
    for k, v in list(agg["info"].items()):
        if k.startswith("raise_sites_reached_shard_"):
            sites |= set(v)
            del agg["info"][k]
    agg["info"]["raise_sites_reached"] = len(sites)
    agg["info"]["raise_sites_reached_sample"] = sorted(sites)[:25]
    return []


def replay(case, emit):
    emit({"v": "inc", "why": "C26 violations name the raise site and code; re-run the check to reproduce (" + str(case)[:100] + ")"})
