"""C32 — execution failures surface as VTL errors, not raw engine errors.
Monitor: classify what escapes run() for scripts that pass semantic_analysis() on inputs that pass
validate_dataset(): a result, a VTLEngineException with a catalogued code — or anything else (violation)."""
import random

ID = "C32"
LEVEL = "exploration"
RULE = ("corpus scripts plus a table-driven generator of run-time failing values (zero divisors, non-positive logarithm "
        "arguments, negative square roots, power/exp/integer/decimal overflow, negative substr/instr arguments, string-distance "
        "length mismatch, timeshift/dateadd beyond year 9999, non-daily period to date, periods a format cannot express, time_agg "
        "to a finer indicator, mixed-indicator period comparison/min/max, unparsable strings in casts, UDO calls as operands) at "
        "scalar, component and dataset level; only cases whose script passes semantic_analysis() and whose inputs pass "
        "validate_dataset() are judged. Oracle: run() returns, or raises a VTLEngineException whose code is in the message "
        "catalogue. Bucket = (family, level, outcome class); one evaluation = one run() outcome classified.")
ASSUMPTIONS = ["'passes load validation' is decided by validate_dataset() on the same inputs"]
FLOORS = {"quick": (250, 25), "thorough": (2500, 60)}
NSH = 16

N = ("Id_1", "Integer", "Identifier", False)


def shards(tier, seed):
    return [{"shard": i, "nshards": NSH} for i in range(NSH)]


def families():
    """list of (family, level, script, comps of DS_1 (and DS_2), rows1, rows2, kwargs)"""
    out = []
    num = [N, ("Me_1", "Number", "Measure", True), ("Me_2", "Number", "Measure", True)]
    integ = [N, ("Me_1", "Integer", "Measure", True), ("Me_2", "Integer", "Measure", True)]
    rows_num = [(1, 4.0, 2.0), (2, -3.5, 0.0), (3, 0.0, -1.0), (4, None, 0.0), (5, 1e9, 1e-6)]
    rows_int = [(1, 4, 2), (2, -3, 0), (3, 0, -1), (4, None, 0), (5, 9223372036854775807, 2)]
    one = [N, ("Me_1", "Number", "Measure", True)]
    rows_one = [(1, 4.0), (2, -3.5), (3, 0.0), (4, None)]

    def add(fam, level, script, comps=num, rows=rows_num, comps2=None, rows2=None, **kw):
        out.append({"family": fam, "level": level, "script": script, "comps1": comps, "rows1": rows,
                    "comps2": comps2, "rows2": rows2, "kw": kw})

    for lvl, tmpl in (("component", "DS_r <- DS_1[calc Me_3 := {e}];"), ("component-filter", "DS_r <- DS_1[filter {e} > 0];")):
        for fam, e in (("div-zero", "Me_1 / Me_2"), ("div-zero-const", "Me_1 / 0"), ("mod-zero", "mod(Me_1, Me_2)"),
                       ("ln-nonpositive", "ln(Me_1)"), ("log-bad-base", "log(abs(Me_1) + 1, Me_2)"), ("log-nonpositive", "log(Me_1, 10)"),
                       ("sqrt-negative", "sqrt(Me_1)"), ("power-overflow", "power(Me_1, 400)"), ("power-neg-frac", "power(Me_1, 0.5)"),
                       ("power-zero-neg", "power(Me_2, -1)"), ("exp-overflow", "exp(Me_1 * 1000)"),
                       ("decimal-overflow", "Me_1 * Me_1 * Me_1 * Me_1"), ("round-huge", "round(Me_1, 400)"),
                       ("trunc-negative-digits", "trunc(Me_1, -400)")):
            add(fam, lvl, tmpl.format(e=e))
        for fam, e in (("int-overflow-add", "Me_1 + Me_1"), ("int-overflow-mul", "Me_1 * Me_1"), ("int-div-zero", "Me_1 / Me_2"),
                       ("int-mod-zero", "mod(Me_1, Me_2)"), ("int-power", "power(Me_1, Me_1)"), ("int-neg-overflow", "- Me_1 - Me_1 - 2")):
            add(fam, lvl, tmpl.format(e=e), comps=integ, rows=rows_int)
    for fam, s in (("div-zero", "DS_r <- DS_1 / DS_2;"), ("mod-zero", "DS_r <- mod(DS_1, DS_2);"), ("log-ds", "DS_r <- log(DS_1, DS_2);"),
                   ("power-ds", "DS_r <- power(DS_1, DS_2);")):
        add(fam, "dataset-dataset", s, comps=one, rows=rows_one, comps2=one, rows2=[(1, 0.0), (2, 2.0), (3, -1.0), (4, 0.0)])
    for fam, s in (("div-zero", "DS_r <- DS_1 / 0;"), ("ln-nonpositive", "DS_r <- ln(DS_1);"), ("sqrt-negative", "DS_r <- sqrt(DS_1);"),
                   ("exp-overflow", "DS_r <- exp(DS_1 * 1000);"), ("power-overflow", "DS_r <- power(DS_1, 500);"),
                   ("log-nonpositive", "DS_r <- log(DS_1, 2);")):
        add(fam, "dataset-scalar", s, comps=one, rows=rows_one)
    for fam, s in (("div-zero", "sc_r <- 1 / 0;"), ("ln-nonpositive", "sc_r <- ln(0);"), ("ln-negative", "sc_r <- ln(-1);"),
                   ("sqrt-negative", "sc_r <- sqrt(-4);"), ("log-bad-base", "sc_r <- log(8, -2);"), ("log-base-one", "sc_r <- log(8, 1);"),
                   ("log-nonpositive", "sc_r <- log(0, 10);"), ("power-overflow", "sc_r <- power(10, 400);"), ("exp-overflow", "sc_r <- exp(1000);"),
                   ("int-overflow-add", "sc_r <- 9223372036854775807 + 1;"), ("int-overflow-mul", "sc_r <- 9223372036854775807 * 2;"),
                   ("mod-zero", "sc_r <- mod(5, 0);"), ("power-zero-neg", "sc_r <- power(0, -1);"), ("power-neg-frac", "sc_r <- power(-8, 0.5);"),
                   ("cast-string-int", 'sc_r <- cast("abc", integer);'), ("cast-string-number", 'sc_r <- cast("1,5", number);'),
                   ("cast-string-date", 'sc_r <- cast("2020-13-45", date);'), ("cast-string-period", 'sc_r <- cast("2020-X9", time_period);'),
                   ("cast-string-duration", 'sc_r <- cast("ZZ", duration);'), ("cast-string-time", 'sc_r <- cast("2020-12-31/2020-01-01", time);'),
                   ("substr-negative", 'sc_r <- substr("hello", -1, 2);'), ("substr-zero", 'sc_r <- substr("hello", 0, 2);'),
                   ("substr-neg-len", 'sc_r <- substr("hello", 2, -2);'), ("instr-negative", 'sc_r <- instr("hello", "l", -1, 1);'),
                   ("instr-zero-occ", 'sc_r <- instr("hello", "l", 1, 0);'), ("replace-empty", 'sc_r <- replace("hello", "", "x");'),
                   ("round-huge", "sc_r <- round(1.5, 400);"), ("dateadd-overflow", 'sc_r <- dateadd(cast("9999-06-01", date), 1, "Y");'),
                   ("dateadd-underflow", 'sc_r <- dateadd(cast("1800-01-01", date), -2000, "Y");'),
                   ("datediff", 'sc_r <- datediff(cast("2020-01-01", date), cast("9999-12-31", date));'),
                   ("period-to-date", 'sc_r <- cast(cast("2020Q1", time_period), date);'),
                   ("timeshift-scalar-period", 'sc_r <- getyear(cast("9999-12-31", date)) + 1;'),
                   ("hamming-mismatch", 'sc_r <- hamming("abc", "ab");'), ("string-distance-mismatch", 'sc_r <- string_distance("abc", "ab", "hamming");'),
                   ("levenshtein", 'sc_r <- levenshtein("abc", "");'), ("between-mixed", "sc_r <- between(1, 5, 2);"),
                   ("match-bad-regex", 'sc_r <- match_characters("abc", "[a-");'), ("match-bad-regex2", 'sc_r <- match_characters("abc", "(?<=a)b");')):
        add(fam, "scalar", s, comps=one, rows=rows_one)
    strs = [N, ("Me_1", "String", "Measure", True), ("Me_2", "Integer", "Measure", True)]
    rows_str = [(1, "hello", -1), (2, "", 0), (3, None, 2), (4, "ñandú", 100), (5, "abc", None)]
    for fam, e in (("substr-negative", "substr(Me_1, Me_2, 2)"), ("substr-neg-len", "substr(Me_1, 1, Me_2)"), ("instr-negative", 'instr(Me_1, "l", Me_2, 1)'),
                   ("instr-zero-occ", 'instr(Me_1, "l", 1, Me_2)'), ("cast-string-int", "cast(Me_1, integer)"), ("cast-string-number", "cast(Me_1, number)"),
                   ("cast-string-date", "cast(Me_1, date)"), ("cast-string-period", "cast(Me_1, time_period)"), ("cast-string-duration", "cast(Me_1, duration)"),
                   ("cast-string-time", "cast(Me_1, time)"), ("hamming-mismatch", 'hamming(Me_1, "abc")'), ("match-bad-regex", 'match_characters(Me_1, "[a-")'),
                   ("replace-empty", 'replace(Me_1, "", "x")'), ("length-null", "length(Me_1) / Me_2")):
        add(fam, "component", f"DS_r <- DS_1[calc Me_3 := {e}];", comps=strs, rows=rows_str)
    # unparsable text whose wording resembles the patterns the error mapper looks for in DuckDB messages
    wordy = [N, ("Me_1", "String", "Measure", True)]
    rows_wordy = [(1, "no update"), (2, "timestamp x"), (3, "12"), (4, 'say "date"'), (5, "out of range")]
    for tgt in ("integer", "number", "date", "time_period", "boolean"):
        add(f"cast-wordy-text-{tgt}", "component", f"DS_r <- DS_1[calc Me_3 := cast(Me_1, {tgt})];", comps=wordy, rows=rows_wordy)
        add(f"cast-wordy-text-{tgt}", "dataset", f"DS_r <- cast(DS_1, {tgt});", comps=wordy, rows=rows_wordy)
    dfar = [N, ("Me_1", "Date", "Measure", True)]
    rows_dfar = [(1, "2020-02-29"), (2, "9999-12-31"), (3, "1800-01-01"), (4, None)]
    for fam, e in (("dateadd-far-years", 'dateadd(Me_1, 300000, "A")'), ("dateadd-far-months", 'dateadd(Me_1, 40000000, "M")'), ("dateadd-far-days", 'dateadd(Me_1, -900000000, "D")'),
                   ("dateadd-far-weeks", 'dateadd(Me_1, 90000000, "W")')):
        add(fam, "component", f"DS_r <- DS_1[calc Me_3 := {e}];", comps=dfar, rows=rows_dfar)
        add(fam, "dataset", f"DS_r <- {e.replace('Me_1', 'DS_1')};", comps=dfar, rows=rows_dfar)
    tp = [("Id_1", "Time_Period", "Identifier", False), ("Me_1", "Number", "Measure", True)]
    for ind, rows in (("A", [("9998", 1.0), ("9999", 2.0)]), ("Q", [("9999Q3", 1.0), ("9999Q4", 2.0)]), ("M", [("9999M11", 1.0), ("9999M12", 2.0)]),
                      ("W", [("2020W52", 1.0), ("2020W53", 2.0)]), ("D", [("9999D364", 1.0), ("9999D365", 2.0)]), ("Alow", [("1800", 1.0), ("1801", 2.0)])):
        for n in (1, 5, -5, 9000, -9000):
            add(f"timeshift-{ind}", "dataset", f"DS_r <- timeshift(DS_1, {n});", comps=tp, rows=rows)
    tpm = [N, ("Me_1", "Time_Period", "Measure", True), ("Me_2", "Time_Period", "Measure", True)]
    rows_tp = [(1, "2020Q1", "2020M3"), (2, "2020", "2020S1"), (3, "2020W53", "2020D366"), (4, None, "2020")]
    for fam, e in (("period-compare-mixed", "Me_1 < Me_2"), ("period-eq-mixed", "Me_1 = Me_2"), ("period-to-date", "cast(Me_1, date)"),
                   ("time_agg-finer", 'time_agg("M", Me_1)'), ("time_agg-coarser", 'time_agg("A", Me_1)'), ("period-indicator", "period_indicator(Me_1)"),
                   ("period-to-time", "cast(Me_1, time)"), ("period-to-string", "cast(Me_1, string)")):
        add(fam, "component", f"DS_r <- DS_1[calc Me_3 := {e}];", comps=tpm, rows=rows_tp)
    for fam, s in (("period-min-mixed", "DS_r <- min(DS_1 group by Id_2);"), ("period-max-mixed", "DS_r <- max(DS_1 group by Id_2);")):
        add(fam, "aggregate", s, comps=[N, ("Id_2", "String", "Identifier", False), ("Me_1", "Time_Period", "Measure", True)],
            rows=[(1, "a", "2020Q1"), (2, "a", "2020M3"), (3, "b", "2020"), (4, "b", "2021")])
    for fmt in ("vtl", "sdmx_reporting", "sdmx_gregorian", "natural"):
        for ind, v in (("A", "2020"), ("S", "2020S1"), ("Q", "2020Q1"), ("M", "2020M1"), ("W", "2020W53"), ("D", "2020D366")):
            add(f"output-format-{fmt}", f"indicator-{ind}", "DS_r <- DS_1;", comps=[N, ("Me_1", "Time_Period", "Measure", True)],
                rows=[(1, v), (2, None)], time_period_output_format=fmt)
            add(f"output-format-{fmt}-identifier", f"indicator-{ind}", "DS_r <- DS_1;", comps=[("Id_1", "Time_Period", "Identifier", False), ("Me_1", "Number", "Measure", True)],
                rows=[(v, 1.0)], time_period_output_format=fmt)
            add(f"output-format-{fmt}-scalar", f"indicator-{ind}", f'sc_r <- cast("{v}", time_period);', comps=one, rows=rows_one, time_period_output_format=fmt)
    dt = [N, ("Me_1", "Date", "Measure", True), ("Me_2", "Integer", "Measure", True)]
    rows_dt = [(1, "9999-12-31", 1), (2, "1800-01-01", -1), (3, "2020-02-29", 100000), (4, None, 5)]
    for fam, e in (("dateadd-overflow", 'dateadd(Me_1, Me_2, "D")'), ("dateadd-years", 'dateadd(Me_1, Me_2, "Y")'), ("dateadd-months", 'dateadd(Me_1, Me_2, "M")'),
                   ("date-to-period", "cast(Me_1, time_period)"), ("datediff", 'datediff(Me_1, cast("2000-01-01", date))'), ("dayofyear", "dayofyear(Me_1)"),
                   ("daytoyear-negative", "daytoyear(Me_2)"), ("daytomonth-negative", "daytomonth(Me_2)"), ("getyear", "getyear(Me_1) * Me_2")):
        add(fam, "component", f"DS_r <- DS_1[calc Me_3 := {e}];", comps=dt, rows=rows_dt)
    udo = "define operator dbl (d dataset) returns dataset is d * 2 end operator; "
    for fam, body in (("udo-operand-left-scalar", "dbl(DS_1) + 1"), ("udo-operand-left-dataset", "dbl(DS_1) + DS_2"), ("udo-operand-right", "DS_2 + dbl(DS_1)"),
                      ("udo-nested", "dbl(dbl(DS_1))"), ("udo-in-function", "abs(dbl(DS_1))"), ("udo-clause", "dbl(DS_1)[filter Me_1 > 0]")):
        add(fam, "dataset", udo + f"DS_r <- {body};", comps=one, rows=rows_one, comps2=one, rows2=rows_one)
    for fam, s in (("ratio_to_report-zero", "DS_r <- ratio_to_report(DS_1 over (partition by Id_2));"),):
        add(fam, "analytic", s, comps=[N, ("Id_2", "String", "Identifier", False), ("Me_1", "Number", "Measure", True)],
            rows=[(1, "a", 0.0), (2, "a", 0.0), (3, "b", 1.0), (4, "b", -1.0)])
    return out


def judge(case_kw, family, level, emit, replay_case):
    from vf import eng
    from vtlengine.Exceptions.messages import centralised_messages
    sem_kw = {k: v for k, v in case_kw.items() if k in ("script", "data_structures", "value_domains", "external_routines")}
    s1, r1 = eng.call(eng.semantic_analysis, **sem_kw)
    if s1 == "exc":
        name, code, isvtl = eng.exc_info(r1)
        emit({"v": "skip", "why": f"semantic analysis rejects ({name} {code})"})
        return
    if case_kw.get("datapoints"):
        s2, r2 = eng.call(vtl_validate, case_kw["data_structures"], case_kw["datapoints"])
        if s2 == "exc":
            emit({"v": "skip", "why": f"validate_dataset rejects ({type(r2).__name__})"})
            return
    s3, r3 = eng.call(eng.run, **case_kw)
    if s3 == "ok":
        emit({"v": "held", "b": f"{family}/{level}/returned", "sample": {"family": family, "script": case_kw["script"][:200], "outcome": "returned"}})
        return
    name, code, isvtl = eng.exc_info(r3)
    if isvtl and code in centralised_messages:
        emit({"v": "held", "b": f"{family}/{level}/vtl-error:{code}",
              "sample": {"family": family, "script": case_kw["script"][:200], "outcome": f"{name} {code}"}})
    elif isvtl:
        emit({"v": "viol", "b": f"{family}/{level}/vtl-error-uncatalogued", "mech": f"uncatalogued-code/{family}/{name}",
              "what": f"{case_kw['script'][:200]!r} raised {name} with code {code!r}: {str(r3)[:200]}", "case": replay_case})
    else:
        mod = type(r3).__module__.split(".")[0]
        site = eng.raise_site(r3) if not isinstance(r3, RecursionError) else f"recursion-in:{family.split(':')[0]}"
        emit({"v": "viol", "b": f"{family}/{level}/raw:{name}", "mech": f"raw/{site}/{mod}.{name}",
              "what": f"{case_kw['script'][:300]!r} ({level}) let {mod}.{name} escape: {str(r3)[:200]}", "case": replay_case})


def vtl_validate(structures, datapoints):
    import vtlengine
    dps = {k: (v.copy() if hasattr(v, "copy") else v) for k, v in datapoints.items()}
    return vtlengine.API.validate_dataset(structures, dps)


def run_family(f, emit):
    from vf import eng
    dss = [eng.mkds("DS_1", [tuple(c) for c in f["comps1"]])]
    dps = {"DS_1": eng.mkdf([c[0] for c in f["comps1"]], [tuple(r) for r in f["rows1"]])}
    if f.get("comps2"):
        dss.append(eng.mkds("DS_2", [tuple(c) for c in f["comps2"]]))
        dps["DS_2"] = eng.mkdf([c[0] for c in f["comps2"]], [tuple(r) for r in f["rows2"]])
    kw = {"script": f["script"], "data_structures": eng.structures(*dss), "datapoints": dps}
    kw.update(f.get("kw") or {})
    judge(kw, f["family"], f["level"], emit, {"family": f})


def run_corpus(c, emit):
    from vf import corpus
    try:
        kw = corpus.run_kwargs(c)
    except Exception as e:  # noqa: BLE001
        emit({"v": "skip", "why": f"corpus load {type(e).__name__}"})
        return
    judge(kw, f"corpus:{c['area'].split('/')[0]}", "corpus", emit, {"corpus": c})


def run_shard(spec, emit):
    from vf import eng, rider
    bud = eng.Budget(spec.get("budget_s", 100 if spec["tier"] == "quick" else 2400))
    fams = families()
    for i, f in enumerate(fams):
        if i % spec["nshards"] == spec["shard"]:
            run_family(f, emit)
    for c in rider.corpus_slice(spec, quick_fraction=8, tag="C32"):
        if not bud.ok():
            emit({"v": "inc", "why": "cut by wall-clock budget"})
            break
        run_corpus(c, emit)


def replay(case, emit):
    if "corpus" in case:
        run_corpus(case["corpus"], emit)
    else:
        run_family(case["family"], emit)
