"""C28 — viral attributes propagate according to the declared rule.
Differential monitor: run() vs a model of the propagation rules (enumerated clauses: two-value clauses, then one-value
clauses, then the default; aggregate rules min/max/sum/avg), executed on several row permutations of every case."""
import itertools
import random

ID = "C28"
LEVEL = "exploration"
RULE = ("structures with one viral attribute (String for enumerated rules, Integer for aggregate rules), generated rules "
        "(0-3 two-value clauses, 0-3 one-value clauses incl. null, default; or aggregate min/max/sum/avg) x operator contexts: "
        "dataset-dataset binary operator, inner_join, group aggregation, analytic invocation over a partition (sum, lag), unary "
        "and dataset-scalar operators, clauses (filter/calc/keep), plain assignment, set operators, and the missing-rule case; "
        "data with null and conflicting viral values; every case runs on the original and two permuted row orders. Oracle: "
        "combined datapoints -> rule over their viral values (pairs; groups folded, where a fold whose result depends on the "
        "order has a set of admissible values); row-preserving operators -> per-datapoint mapping for enumerated rules and the "
        "whole-operand aggregate for aggregate rules; clauses/assignment/set operators -> unchanged; no rule -> SemanticError "
        "at semantic_analysis(); all row orders must give the same result. Bucket = (rule kind, operator context, null / "
        "conflict present); one evaluation = one result's viral column compared (incl. its permutation replicas).")
ASSUMPTIONS = ["the engine's propagation model (two-value clauses take precedence over one-value clauses) is the reference, as the property states"]
FLOORS = {"quick": (300, 40), "thorough": (6000, 80)}
NSH = 16
N = {"quick": 35, "thorough": 900}
VALS = ["A", "B", "C", None]


def shards(tier, seed):
    return [{"shard": i, "nshards": NSH, "n": N[tier]} for i in range(NSH)]


def make_rule(rng):
    if rng.random() < 0.35:
        return {"kind": "aggregate", "fn": rng.choice(["min", "max", "sum", "avg"])}
    pairs = [p for p in itertools.combinations(VALS, 2)]
    rng.shuffle(pairs)
    binary = [[list(p), rng.choice(["A", "B", "C", "X"])] for p in pairs[:rng.randint(0, 3)]]
    singles = VALS[:]
    rng.shuffle(singles)
    unary = [[[v], rng.choice(["A", "B", "C", "Y"])] for v in singles[:rng.randint(0, 3)]]
    clauses = binary + unary
    if rng.random() < 0.5:
        rng.shuffle(clauses)          # declaration order must not matter: two-value clauses are matched first
    return {"kind": "enumerated", "clauses": clauses, "default": rng.choice(["Z", "A", None])}


def rule_text(rule):
    def q(v):
        return "null" if v is None else f'"{v}"'
    if rule["kind"] == "aggregate":
        return f"define viral propagation R (variable VAt_1) is aggregate {rule['fn']} end viral propagation;"
    parts = []
    for vals, res in rule["clauses"]:
        parts.append(f"when {' and '.join(q(v) for v in vals)} then {q(res)};")
    parts.append(f"else {q(rule['default'])}")
    return "define viral propagation R (variable VAt_1) is " + " ".join(parts) + " end viral propagation;"


def pair(rule, a, b):
    if rule["kind"] == "aggregate":
        if a is None or b is None:
            return None if rule["fn"] in ("sum", "avg") else (a if b is None else b)
        return {"min": min(a, b), "max": max(a, b), "sum": a + b, "avg": (a + b) / 2}[rule["fn"]]
    for vals, res in rule["clauses"]:
        if len(vals) == 2 and all((v is None and (a is None or b is None)) or (v is not None and v in (a, b)) for v in vals):
            return res
    for vals, res in rule["clauses"]:
        if len(vals) == 1:
            v = vals[0]
            if (v is None and (a is None or b is None)) or (v is not None and v in (a, b)):
                return res
    return rule["default"]


def single(rule, a):
    for vals, res in rule["clauses"]:
        if len(vals) == 1 and vals[0] == a:
            return res
    return rule["default"]


def group(rule, values):
    """set of admissible results of reducing a group"""
    if rule["kind"] == "aggregate":
        xs = [v for v in values if v is not None]
        if not xs:
            return {None}
        return {{"min": min(xs), "max": max(xs), "sum": sum(xs), "avg": sum(xs) / len(xs)}[rule["fn"]]}
    if len(values) > 6:
        return None
    out = set()
    for perm in set(itertools.permutations(values)):
        acc = perm[0]
        for x in perm[1:]:
            acc = pair(rule, acc, x)
        out.add(acc)
    return out


CONTEXTS = ["binary", "join", "join3", "binary-left-viral-only", "aggregation", "analytic-sum", "analytic-lag", "unary", "dataset-scalar", "filter", "calc", "keep", "assignment", "union",
            "no-rule"]


def make_case(rng):
    rule = make_rule(rng)
    ctx = rng.choice(CONTEXTS)
    agg = rule["kind"] == "aggregate"
    pool = [1, 2, 5, None] if agg else VALS
    keys = [(i, g) for i in (1, 2, 3) for g in ("a", "b")]
    mk = lambda: [[k[0], k[1], float(rng.choice([1, 2, 3, 10])), rng.choice(pool)] for k in keys if rng.random() < 0.85]  # noqa: E731
    return {"rule": rule, "ctx": ctx, "ds1": mk(), "ds2": mk(), "ds3": mk(), "permseed": rng.randrange(1 << 30)}


def script_of(case):
    ctx = case["ctx"]
    body = {"binary": "DS_1 + DS_2", "join": "inner_join(DS_1 as a, DS_2 as b keep a#Me_1)", "join3": "inner_join(DS_1 as a, DS_2 as b, DS_3 as c keep a#Me_1)",
            "binary-left-viral-only": "DS_4 + DS_5", "aggregation": "sum(DS_1 group by Id_2)",
            "analytic-sum": "sum(DS_1 over (partition by Id_2))", "analytic-lag": "lag(DS_1, 1 over (partition by Id_2 order by Id_1))",
            "unary": "abs(DS_1)", "dataset-scalar": "DS_1 * 2", "filter": "DS_1[filter Me_1 > 1]", "calc": "DS_1[calc Me_2 := Me_1 + 1]", "keep": "DS_1[keep Me_1]",
            "assignment": "DS_1", "union": "union(DS_1, DS_2)", "no-rule": "DS_1 + DS_2"}[ctx]
    rule = "" if ctx == "no-rule" else rule_text(case["rule"]) + " "
    return f"{rule}DS_r <- {body};"


def expected(case):
    """{key: set of admissible viral values}; key = identifier tuple of the result"""
    rule, ctx = case["rule"], case["ctx"]
    d1 = {(r[0], r[1]): r for r in case["ds1"]}
    d2 = {(r[0], r[1]): r for r in case["ds2"]}
    if ctx in ("binary", "join"):
        return {k: {pair(rule, d1[k][3], d2[k][3])} for k in d1 if k in d2}
    if ctx == "join3":
        d3 = {(r[0], r[1]): r for r in case.get("ds3", [])}
        out = {}
        for k in d1:
            if k in d2 and k in d3:
                vals = [d1[k][3], d2[k][3], d3[k][3]]
                adm = set(group(rule, vals) or [])
                for perm in itertools.permutations(vals):          # any pairwise fold order is admissible, dropping an operand is not
                    adm.add(pair(rule, pair(rule, perm[0], perm[1]), perm[2]))
                out[k] = adm
        return out
    if ctx == "binary-left-viral-only":
        # DS_4 (Id_1 only, carries the viral attribute) + DS_5 (Id_1, Id_2, no viral attribute): the attribute must survive
        d4 = {}
        for r in case["ds1"]:
            d4.setdefault(r[0], r)
        allv = [r[3] for r in d4.values()]
        return {(r[0], r[1]): ({d4[r[0]][3], single(rule, d4[r[0]][3])} | (group(rule, allv) or set()) if rule["kind"] != "aggregate" else {d4[r[0]][3]} | (group(rule, allv) or set()))
                for r in case["ds2"] if r[0] in d4}
    if ctx in ("aggregation",):
        gs = {}
        for r in case["ds1"]:
            gs.setdefault((r[1],), []).append(r[3])
        return {k: group(rule, v) for k, v in gs.items()}
    if ctx in ("analytic-sum", "analytic-lag"):
        gs = {}
        for r in case["ds1"]:
            gs.setdefault(r[1], []).append(r[3])
        return {k: group(rule, gs[k[1]]) for k in d1}
    if ctx in ("unary", "dataset-scalar"):
        if rule["kind"] == "aggregate":
            g = group(rule, [r[3] for r in case["ds1"]])
            return {k: g for k in d1}
        return {k: {single(rule, d1[k][3])} for k in d1}
    if ctx == "filter":
        return {k: {r[3]} for k, r in d1.items() if r[2] > 1}
    if ctx == "union":
        out = {k: {r[3]} for k, r in d1.items()}
        for k, r in d2.items():
            out.setdefault(k, {r[3]})
        return out
    return {k: {r[3]} for k, r in d1.items()}


def run_case(case, emit):
    from vf import eng
    agg = case["rule"]["kind"] == "aggregate"
    comps = [("Id_1", "Integer", "Identifier", False), ("Id_2", "String", "Identifier", False), ("Me_1", "Number", "Measure", True),
             ("VAt_1", "Integer" if agg else "String", "Viral Attribute", True)]
    st = eng.structures(eng.mkds("DS_1", comps), eng.mkds("DS_2", comps), eng.mkds("DS_3", comps))
    script = script_of(case)
    ctx = case["ctx"]
    c4 = [comps[0], comps[2], comps[3]]
    c5 = comps[:3]
    if ctx == "binary-left-viral-only":
        st = eng.structures(eng.mkds("DS_4", c4), eng.mkds("DS_5", c5))
    vals = [r[3] for r in case["ds1"] + case["ds2"]]
    kind = case["rule"]["kind"] + (":" + case["rule"]["fn"] if agg else "")
    bucket = f"{kind}/{ctx}/null={None in vals}/distinct={min(len(set(vals)), 3)}"
    if ctx == "no-rule":
        s, r = eng.call(eng.semantic_analysis, script, st)
        if s == "ok" or type(r).__name__ != "SemanticError":
            emit({"v": "viol", "b": bucket, "mech": "missing-rule-not-rejected", "what": f"{script}: semantic_analysis {'accepted' if s == 'ok' else 'raised ' + type(r).__name__} a viral attribute without a propagation rule", "case": case})
        else:
            emit({"v": "held", "b": bucket, "sample": {"script": script, "outcome": str(r)[:80]}})
        return
    exp = expected(case)
    rng = random.Random(case["permseed"])
    outs = []
    for rep in range(3):
        r1, r2 = [tuple(r) for r in case["ds1"]], [tuple(r) for r in case["ds2"]]
        if rep:
            rng.shuffle(r1)
            rng.shuffle(r2)
        if ctx == "binary-left-viral-only":
            first = {}
            for x in case["ds1"]:          # the same datapoints in every replica; only their order changes below
                first.setdefault(x[0], tuple(x))
            r4 = [(x[0], x[2], x[3]) for x in first.values()]
            if rep:
                rng.shuffle(r4)
            dps = {"DS_4": eng.mkdf([c[0] for c in c4], r4), "DS_5": eng.mkdf([c[0] for c in c5], [x[:3] for x in r2])}
        else:
            r3 = [tuple(x) for x in case.get("ds3", [])]
            if rep:
                rng.shuffle(r3)
            dps = {"DS_1": eng.mkdf([c[0] for c in comps], r1), "DS_2": eng.mkdf([c[0] for c in comps], r2), "DS_3": eng.mkdf([c[0] for c in comps], r3)}
        s, r = eng.call(eng.run, script, st, dps)
        outs.append((s, r))
    s, r = outs[0]
    if s == "exc":
        name, code, _ = eng.exc_info(r)
        if name in ("SemanticError", "VTLSyntaxError"):
            emit({"v": "skip", "why": f"generator_rejected {code}"})
        else:
            emit({"v": "viol", "b": bucket, "mech": f"valid-viral-script-raises/{name}/{ctx}", "what": f"{script}: {name} {code}: {str(r)[:160]}", "case": case})
        return

    def viral_of(res):
        ds = res["DS_r"]
        ids = [n for n, c in ds.components.items() if c.role.value == "Identifier"]
        if "VAt_1" not in ds.components or "VAt_1" not in ds.data.columns:
            return None, ids
        return {tuple(k): eng.norm(v) for *k, v in eng.rows_of(ds.data, ids + ["VAt_1"])}, ids
    got, ids = viral_of(r)
    if got is None:
        emit({"v": "viol", "b": bucket, "mech": f"viral-attribute-lost/{ctx}", "what": f"{script}: result has no VAt_1 component ({list(r['DS_r'].components)})", "case": case})
        return
    for s2, r2 in outs[1:]:
        g2 = viral_of(r2)[0] if s2 == "ok" else None
        if g2 != got:
            emit({"v": "viol", "b": bucket, "mech": f"depends-on-input-row-order/{case['rule']['kind']}/{ctx}",
                  "what": f"{script}: viral values change when the input rows are permuted: {sorted(got.items(), key=repr)[:4]} vs {sorted((g2 or {}).items(), key=repr)[:4]}", "case": case})
            return
    want_keys = {k if len(ids) == 2 else (k[-1],) if ctx == "aggregation" else k for k in exp}
    if set(got) != set(exp):
        emit({"v": "viol", "b": bucket, "mech": f"result-keys/{ctx}", "what": f"{script}: result keys {sorted(got, key=repr)[:6]} expected {sorted(exp, key=repr)[:6]}", "case": case})
        return
    bad = []
    for k, adm in exp.items():
        if adm is None:
            continue
        g = got[k]
        if not any((g is None and a is None) or (g is not None and a is not None and eng.close(g, a, 1e-9) if not isinstance(a, str) else g == a) for a in adm):
            bad.append((k, g, adm))
    if bad:
        emit({"v": "viol", "b": bucket, "mech": f"wrong-viral-value/{case['rule']['kind']}/{ctx}", "what": f"{script}: datapoint {bad[0][0]} has VAt_1 = {bad[0][1]!r}, the rule gives {sorted(bad[0][2], key=repr)}", "case": case})
    else:
        emit({"v": "held", "b": bucket if got else "trivial-empty-result", "sample": {"script": script[:200], "datapoints": len(got), "permutation_replicas": 2}})


def run_shard(spec, emit):
    from vf import eng
    rng = random.Random(f"C28-{spec['seed']}-{spec['shard']}")
    bud = eng.Budget(spec.get("budget_s", 100 if spec["tier"] == "quick" else 2400))
    for _ in range(spec["n"]):
        if not bud.ok():
            emit({"v": "inc", "why": "cut by wall-clock budget"})
            break
        run_case(make_case(rng), emit)


def replay(case, emit):
    run_case(case, emit)
