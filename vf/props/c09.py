"""C09 — cast converts values according to the documented conversion table.
Exhaustive monitor over the 8x8 (source, target) pairs x per-type value pools x {scalar, component, dataset} level; the
truth table is parsed from docs/data_types.rst ('Supported conversions without mask' and 'Cast on datasets')."""
import itertools
import re

ID = "C09"
LEVEL = "exploration"
EXHAUSTIVE = True
RULE = ("all 64 (source type, target type) pairs x a value pool per source type (0, negatives, fractions, booleans, every period "
        "indicator, same-date and different-date intervals, short and ISO duration codes, unparsable strings, null) at scalar, "
        "component (calc) and mono-measure dataset level. Oracle from the docs tables parsed at run time: a pair the table "
        "forbids -> semantic_analysis() raises a SemanticError and run() returns nothing; an allowed pair -> accepted, and the "
        "value equals the documented conversion (identity, 0/false 1/true, Boolean->0/1, String->Integer strict, String->"
        "Number/Date/Time_Period/Time/Duration of valid text, Date->daily Time_Period, X->String->X round trip) or a VTL run-time "
        "error for text that cannot be converted; undocumented value mappings are only checked for type conformance; at "
        "dataset level the measure is renamed as documented unless the source implicitly promotes to the target. "
        "Bucket = (source, target, level, outcome class); one evaluation = one (pair, value, level) outcome.")
ASSUMPTIONS = ["with-mask casts are documented as not implemented and are not exercised",
               "Number->Integer of a fractional value and number/date formatting in X->String are not documented: type conformance only"]
FLOORS = {"quick": (400, 120), "thorough": (400, 120)}
NSH = 16
T = ["String", "Number", "Integer", "Boolean", "Time", "Date", "Time_Period", "Duration"]
CASTNAME = {"String": "string", "Number": "number", "Integer": "integer", "Boolean": "boolean", "Time": "time", "Date": "date", "Time_Period": "time_period", "Duration": "duration"}
POOL = {
    "Integer": [0, 1, -7, 42, None], "Number": [0.0, 1.0, 3.0, -2.0, 2.5, -0.5, None], "Boolean": [True, False, None],
    "String": ["42", "-7", "3.5", "abc", "true", "2020-01-15", "2020Q1", "2020-M03", "2020-01-01/2020-12-31", "A", "P1Y", "", None],
    "Date": ["2020-01-15", "2020-12-31", None], "Time_Period": ["2020", "2020S2", "2020Q1", "2020M3", "2020W5", "2020D45", None],
    "Time": ["2020-01-01/2020-12-31", "2020-01-15/2020-01-15", "2019-12-30/2020-01-05", "2024-12-30/2025-01-05", "2020-03-02/2020-03-08", "2020-02-01/2020-02-29",
             "2020-04-01/2020-06-30", "2020-07-01/2020-12-31", None], "Duration": ["A", "M", "D", None],
}


def shards(tier, seed):
    return [{"shard": i, "nshards": NSH} for i in range(NSH)]


def docs_tables():
    import os
    import vboot
    txt = open(os.path.join(vboot.REPO, "docs", "data_types.rst")).read()
    sec = txt.split("Supported conversions without mask", 1)[1].split("Conversion details:", 1)[0]
    rows = re.split(r"\n    \* - ", sec)[1:]
    cols = [c.strip() for c in re.split(r"\n      - ", rows[0])][1:]
    allowed = set()
    for r in rows[1:]:
        cells = [c.strip() for c in re.split(r"\n      - ", r)]
        src = cells[0].strip("*").strip()
        for c, v in zip(cols, cells[1:]):
            if "|y|" in v:
                allowed.add((src, c))
    sec2 = txt.split("Cast on datasets", 1)[1].split(".. note::", 1)[0]
    ren = dict(re.findall(r"\* - (\w+)\s*\n\s*- ``(\w+)``", sec2))
    imp = txt.split("Implicit Casting (Automatic)", 1)[1].split("Key rules:", 1)[0]
    irows = re.split(r"\n    \* - ", imp)[1:]
    icols = [c.strip() for c in re.split(r"\n      - ", irows[0])][1:]
    implicit = set()
    for r in irows[1:]:
        cells = [c.strip() for c in re.split(r"\n      - ", r)]
        for c, v in zip(icols, cells[1:]):
            if "|y|" in v:
                implicit.add((cells[0].strip("*").strip(), c))
    return allowed, ren, implicit


def tp_canon(s):
    m = re.fullmatch(r"(\d{4})(?:-?([ASQMWD])-?(\d+))?", s)
    if m:
        return m.group(1) if not m.group(2) or m.group(2) == "A" else f"{m.group(1)}{m.group(2)}{int(m.group(3))}"
    return None


def interval_period(v):
    """the calendar period an interval is exactly equal to (VTL spelling), else None"""
    import calendar
    import datetime
    a, b = (datetime.date.fromisoformat(x) for x in v.split("/"))
    if a == b:
        return f"{a.year}D{a.timetuple().tm_yday}"
    if a.weekday() == 0 and (b - a).days == 6:
        iso = a.isocalendar()
        return f"{iso[0]}W{iso[1]}"
    if a.day == 1 and a.year == b.year and b.day == calendar.monthrange(b.year, b.month)[1]:
        span = (a.month, b.month)
        if span == (1, 12):
            return str(a.year)
        if span in ((1, 6), (7, 12)):
            return f"{a.year}S{1 if a.month == 1 else 2}"
        if b.month - a.month == 2 and a.month % 3 == 1:
            return f"{a.year}Q{(a.month + 2) // 3}"
        if a.month == b.month:
            return f"{a.year}M{a.month}"
    return None


def expected(src, tgt, v):
    """('value', x) | ('error',) | ('unspec',)"""
    import datetime
    if v is None:
        return ("value", None)
    if src == tgt:
        return ("value", v)
    if tgt == "Boolean" and src in ("Integer", "Number"):
        return ("value", v != 0)
    if src == "Boolean" and tgt in ("Integer", "Number"):
        return ("value", (1 if v else 0) if tgt == "Integer" else (1.0 if v else 0.0))
    if src == "Integer" and tgt == "Number":
        return ("value", float(v))
    if src == "Number" and tgt == "Integer":
        return ("value", int(v)) if float(v).is_integer() else ("unspec",)
    if src == "String":
        if v == "":
            return ("unspec",)
        if tgt == "Integer":
            return ("value", int(v)) if re.fullmatch(r"-?\d+", v) else ("error",)
        if tgt == "Number":
            return ("value", float(v)) if re.fullmatch(r"-?\d+(\.\d+)?", v) else ("error",)
        if tgt == "Date":
            try:
                datetime.date.fromisoformat(v)
                return ("value", v) if re.fullmatch(r"\d{4}-\d{2}-\d{2}", v) else ("error",)
            except ValueError:
                return ("error",)
        if tgt == "Time_Period":
            if re.fullmatch(r"\d{4}-\d{2}-\d{2}(/\d{4}-\d{2}-\d{2})?", v):
                return ("unspec",)          # a date or an interval text may denote a period: not documented
            c = tp_canon(v)
            return ("value", c) if c and re.fullmatch(r"\d{4}(-?[ASQMWD]-?\d+)?", v) else ("error",)
        if tgt == "Time":
            if re.fullmatch(r"\d{4}-\d{2}-\d{2}/\d{4}-\d{2}-\d{2}", v):
                return ("value", v)
            return ("unspec",) if re.fullmatch(r"\d{4}(-\d{2})?|\d{4}-?[ASQMWD]-?\d+|\d{4}-\d{2}-\d{2}", v) else ("error",)
        if tgt == "Duration":
            return ("value", v) if v in ("A", "S", "Q", "M", "W", "D") else (("unspec",) if re.fullmatch(r"P\d+[YMWD]", v) else ("error",))
        return ("unspec",)
    if tgt == "String":
        if src == "Boolean":
            return ("unspec",)
        if src in ("Time", "Duration"):
            return ("value", v)
        if src == "Time_Period":
            return ("unspec",)
        return ("unspec",)
    if src == "Time" and tgt == "Time_Period":
        p = interval_period(v)
        return ("value", p) if p else ("unspec",)
    if src == "Date" and tgt == "Time_Period":
        d = datetime.date.fromisoformat(v)
        return ("value", f"{d.year}D{d.timetuple().tm_yday}")
    return ("unspec",)


def lit(src, v):
    from vf import gen
    if v is None:
        return f"cast(null, {CASTNAME[src]})"
    return gen.lit(v, src if src in ("Date", "Time_Period", "Time", "Duration") else None)


def run_shard(spec, emit):
    from vf import conform, eng
    allowed, ren, implicit = docs_tables()
    if spec["shard"] == 0:
        emit({"v": "info", "k": "documented_allowed_pairs", "val": sorted(f"{a}->{b}" for a, b in allowed)})
        consistency_part(emit)
    k = 0
    for src, tgt in itertools.product(T, T):
        k += 1
        if k % spec["nshards"] != spec["shard"]:
            continue
        ok = (src, tgt) in allowed
        tn = CASTNAME[tgt]
        one = [("Id_1", "Integer", "Identifier", False), ("Me_1", src, "Measure", True)]
        st = eng.structures(eng.mkds("DS_1", one))
        if not ok:
            for level, script in (("scalar", f"sc_r <- cast({lit(src, POOL[src][0])}, {tn});"), ("component", f"DS_r <- DS_1[calc Me_2 := cast(Me_1, {tn})];"),
                                  ("dataset", f"DS_r <- cast(DS_1, {tn});")):
                b = f"{src}->{tgt}/{level}/forbidden"
                s1, r1 = eng.call(eng.semantic_analysis, script, st)
                s2, r2 = eng.call(eng.run, script, st, {"DS_1": eng.mkdf(["Id_1", "Me_1"], [(1, POOL[src][0])])})
                case = {"src": src, "tgt": tgt, "level": level, "script": script}
                if s1 == "ok" or s2 == "ok":
                    emit({"v": "viol", "b": b, "mech": f"forbidden-pair-accepted/{src}->{tgt}", "what": f"{script}: the docs table forbids {src}->{tgt} but semantic_analysis {'accepted' if s1 == 'ok' else 'rejected'} / run {'returned' if s2 == 'ok' else 'raised'}", "case": case})
                elif type(r1).__name__ != "SemanticError":
                    emit({"v": "viol", "b": b, "mech": f"forbidden-pair-wrong-error/{type(r1).__name__}/{src}->{tgt}", "what": f"{script}: rejected with {type(r1).__name__}: {str(r1)[:120]} instead of a SemanticError", "case": case})
                else:
                    emit({"v": "held", "b": b})
            if (src, tgt) == ("Time", "Time_Period"):
                # the docs table does not list this pair, the engine converts it anyway (listed finding): where the calendar fixes the
                # answer (an interval that is exactly one period) the converted value is still checked
                for v in POOL[src]:
                    e = interval_period(v) if v else None
                    if not e:
                        continue
                    script = f"DS_r <- DS_1[calc Me_2 := cast(Me_1, {tn})];"
                    s3, r3 = eng.call(eng.run, script, st, {"DS_1": eng.mkdf(["Id_1", "Me_1"], [(1, v)])})
                    if s3 != "ok":
                        continue
                    got = eng.norm(r3["DS_r"].data["Me_2"].tolist()[0])
                    b = f"{src}->{tgt}/component/undocumented-pair-value"
                    if isinstance(got, str) and tp_canon(got) == e:
                        emit({"v": "held", "b": b})
                    else:
                        emit({"v": "viol", "b": b, "mech": f"wrong-converted-value/{src}->{tgt}/undocumented-pair", "what": f"{script} on {v!r}: returned {got!r}, the interval is the period {e}",
                              "case": {"src": src, "tgt": tgt, "value": v, "script": script}})
            continue
        for v in POOL[src]:
            exp = expected(src, tgt, v)
            level_vals = {}
            for level in ("scalar", "component", "dataset", "compare-levels"):
                if level == "compare-levels":
                    # the same value cast inside calc and at dataset level must convert to the same result
                    if "component" in level_vals and "dataset" in level_vals:
                        a, c = level_vals["component"], level_vals["dataset"]
                        same = (a is None and c is None) or (a is not None and c is not None and (eng.close(a, c, 1e-9) if not isinstance(a, str) else a == c))
                        b = f"{src}->{tgt}/levels-agree"
                        if same:
                            emit({"v": "held", "b": b})
                        else:
                            emit({"v": "viol", "b": b, "mech": f"component-and-dataset-level-disagree/{src}->{tgt}",
                                  "what": f"cast of {v!r} ({src}) to {tn}: {a!r} inside calc, {c!r} at dataset level", "case": {"src": src, "tgt": tgt, "value": v}})
                    continue
                if level == "scalar":
                    script = f"sc_r <- cast({lit(src, v)}, {tn});"
                elif level == "component":
                    script = f"DS_r <- DS_1[calc Me_2 := cast(Me_1, {tn})];"
                else:
                    script = f"DS_r <- cast(DS_1, {tn});"
                b = f"{src}->{tgt}/{level}/{exp[0]}"
                case = {"src": src, "tgt": tgt, "level": level, "value": v, "script": script}
                s, r = eng.call(eng.run, script, st, {"DS_1": eng.mkdf(["Id_1", "Me_1"], [(1, v)])})
                if s == "exc":
                    name, code, isvtl = eng.exc_info(r)
                    if level == "scalar" and src not in ("String", "Integer", "Number", "Boolean") and v is not None and name == "SemanticError":
                        emit({"v": "inc", "why": "scalar literal of this source type cannot be written"})
                        continue
                    if exp[0] == "error":
                        if isvtl:
                            emit({"v": "held", "b": b, "sample": {"script": script, "value": v, "outcome": f"{name} {code}"}})
                        else:
                            emit({"v": "inc", "why": "raw error class is C32's subject"})
                    elif exp[0] == "unspec":
                        emit({"v": "inc", "why": "undocumented value mapping raised"})
                    else:
                        emit({"v": "viol", "b": b, "mech": f"allowed-cast-raises/{src}->{tgt}/{level}/{name}", "what": f"{script} on {v!r}: {name} {code}: {str(r)[:140]}", "case": case})
                    continue
                if exp[0] == "error":
                    emit({"v": "viol", "b": b, "mech": f"unconvertible-value-accepted/{src}->{tgt}", "what": f"{script} on {v!r}: returned although the text cannot be converted", "case": case})
                    continue
                if level == "scalar":
                    got, gtype, name = r["sc_r"].value, r["sc_r"].data_type.__name__, None
                else:
                    ds = r["DS_r"]
                    ms = [n for n, c in ds.components.items() if c.role.value == "Measure"]
                    name = "Me_2" if level == "component" else (ms[0] if ms else None)
                    if name not in ds.components:
                        emit({"v": "viol", "b": b, "mech": f"result-measure-missing/{src}->{tgt}/{level}", "what": f"{script}: components {list(ds.components)}", "case": case})
                        continue
                    got = eng.norm(ds.data[name].tolist()[0]) if len(ds.data) else None
                    gtype = ds.components[name].data_type.__name__
                    level_vals[level] = got
                    if level == "dataset":
                        want_name = "Me_1" if (src, tgt) in implicit or src == tgt else ren.get(tgt)
                        if want_name and name != want_name:
                            emit({"v": "viol", "b": b, "mech": f"dataset-measure-name/{src}->{tgt}", "what": f"{script}: measure named {name}, documented {want_name}", "case": case})
                            continue
                etype = {"Time": "TimeInterval", "Time_Period": "TimePeriod"}.get(tgt, tgt)
                if gtype != etype and not (v is None and level == "scalar"):
                    emit({"v": "viol", "b": b, "mech": f"result-type/{src}->{tgt}/{level}", "what": f"{script}: result type {gtype}, expected {etype}", "case": case})
                    continue
                if v != "" and not conform.value_ok(got, etype):
                    emit({"v": "viol", "b": b, "mech": f"value-not-of-target-type/{src}->{tgt}", "what": f"{script} on {v!r}: returned {got!r}", "case": case})
                    continue
                if exp[0] == "value":
                    e = exp[1]
                    same = eng.close(eng.norm(got), e, 1e-9) if not isinstance(e, str) else (got == e or (tgt == "Time_Period" and isinstance(got, str) and tp_canon(got) == e))
                    if not same:
                        emit({"v": "viol", "b": b, "mech": f"wrong-converted-value/{src}->{tgt}/{level}", "what": f"{script} on {v!r}: returned {got!r}, documented {e!r}", "case": case})
                        continue
                emit({"v": "held", "b": b, "sample": {"script": script, "value": v, "result": got}})


def consistency_part(emit):
    """Number -> Integer of fractional values is not documented (truncate or round?) but every way of writing the same
    conversion must give the same integer: component vs dataset level, stored operand vs inline expression."""
    from vf import eng
    ints = [3, 5, 7, -3, -5, 1, 4]
    one_i = [("Id_1", "Integer", "Identifier", False), ("Me_1", "Integer", "Measure", True)]
    one_n = [("Id_1", "Integer", "Identifier", False), ("Me_1", "Number", "Measure", True)]
    st = eng.structures(eng.mkds("DS_I", one_i), eng.mkds("DS_N", one_n))
    dps = lambda: {"DS_I": eng.mkdf(["Id_1", "Me_1"], [(i + 1, v) for i, v in enumerate(ints)]),  # noqa: E731
                   "DS_N": eng.mkdf(["Id_1", "Me_1"], [(i + 1, v / 2) for i, v in enumerate(ints)])}
    forms = {
        "component-stored": "DS_r <- DS_N[calc Me_2 := cast(Me_1, integer)][keep Me_2];",
        "dataset-stored": "DS_r <- cast(DS_N, integer);",
        "dataset-inline-division": "DS_r <- cast(DS_I / 2, integer);",
        "dataset-inline-multiplication": "DS_r <- cast(DS_I * 0.5, integer);",
        "dataset-via-intermediate": "DS_a := DS_I / 2; DS_r <- cast(DS_a, integer);",
        "component-inline": "DS_r <- DS_I[calc Me_2 := cast(Me_1 / 2, integer)][keep Me_2];",
    }
    res = {}
    for name, script in forms.items():
        s, r = eng.call(eng.run, script, st, dps())
        if s == "exc":
            emit({"v": "inc", "why": f"consistency form {name} raised {type(r).__name__}"})
            continue
        ds = r["DS_r"]
        m = [n for n, c in ds.components.items() if c.role.value == "Measure"][0]
        res[name] = {int(a): eng.norm(b) for a, b in zip(ds.data["Id_1"].tolist(), ds.data[m].tolist())}
    ref_name = "component-stored"
    for name, vals in res.items():
        if name == ref_name or ref_name not in res:
            continue
        b = f"Number->Integer/consistency/{name}"
        diff = {k: (vals.get(k), res[ref_name].get(k)) for k in res[ref_name] if vals.get(k) != res[ref_name].get(k)}
        if diff:
            emit({"v": "viol", "b": b, "mech": f"number-to-integer-inconsistent/{name}", "what": f"{forms[name]} gives {vals} but {forms[ref_name]} gives {res[ref_name]} for the same values {[v / 2 for v in ints]}",
                  "case": {"consistency": name}})
        else:
            emit({"v": "held", "b": b, "sample": {"form": name, "script": forms[name], "values": vals}})


def replay(case, emit):
    emit({"v": "inc", "why": "C09 is exhaustive over a finite table: re-run the check; point: " + str(case)[:200]})
