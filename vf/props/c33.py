"""C33 — results depend only on the set of input datapoints.
Metamorphic monitor: the rows of every input table are permuted and its columns reordered, in CSV, DataFrame and
Parquet form; the result set must equal the one of the unpermuted run in the same form."""
import itertools
import os
import random
import re

ID = "C33"
LEVEL = "exploration"
RULE = ("generated order-sensitive scripts (union with overlapping keys, set operators, aggregates incl. median, joins, "
        "analytic functions over a total order, rank, time-series operators, filters, calc) on inputs of 3-6 rows with ALL row "
        "permutations (quick: up to 4 rows; thorough: up to 6 rows) and on larger inputs with random permutations, and corpus "
        "scripts (those without analytic clauses, current_date or random) with 2-4 random row+column permutations; each in "
        "CSV, DataFrame or Parquet form. Oracle: digest (structure + set of datapoints) equal to the unpermuted run of the same "
        "form. Bucket = (source/script family, input form, rows class, columns shuffled); one evaluation = one permuted run.")
ASSUMPTIONS = ["the unpermuted run in the same input form is the reference; scripts with ties in analytic orderings are excluded by construction"]
FLOORS = {"quick": (400, 20), "thorough": (8000, 40)}
NSH = 16

COMPS = [("Id_1", "Integer", "Identifier", False), ("Id_2", "String", "Identifier", False),
         ("Me_1", "Number", "Measure", True), ("Me_2", "String", "Measure", True)]
TS = [("Id_1", "String", "Identifier", False), ("Id_2", "Time_Period", "Identifier", False), ("Me_1", "Number", "Measure", True)]

SCRIPTS = [
    ("union", "DS_r <- union(DS_1, DS_2);"),
    ("union3", "DS_r <- union(DS_2, DS_1, DS_2[calc Me_1 := Me_1 * 2]);"),
    ("intersect", "DS_r <- intersect(DS_1, DS_2);"),
    ("setdiff", "DS_r <- setdiff(DS_1, DS_2);"),
    ("symdiff", "DS_r <- symdiff(DS_1, DS_2);"),
    ("sum-group", "DS_r <- sum(DS_1[keep Me_1] group by Id_2);"),
    ("avg-median", "DS_r <- DS_1[aggr Me_3 := avg(Me_1), Me_4 := median(Me_1), Me_5 := count(Me_2) group by Id_2];"),
    ("minmax-str", "DS_r <- DS_1[aggr Me_3 := min(Me_2), Me_4 := max(Me_2) group by Id_1];"),
    ("stddev", "DS_r <- DS_1[aggr Me_3 := stddev_samp(Me_1), Me_4 := var_pop(Me_1) group by Id_2];"),
    ("inner-join", "DS_r <- inner_join(DS_1 as a, DS_2 as b keep a#Me_1, b#Me_2);"),
    ("left-join", "DS_r <- left_join(DS_1 as a, DS_2 as b keep a#Me_1, b#Me_2);"),
    ("full-join", "DS_r <- full_join(DS_1 as a, DS_2 as b keep a#Me_1, b#Me_2);"),
    ("binop", "DS_r <- DS_1[keep Me_1] + DS_2[keep Me_1];"),
    ("filter-calc", "DS_r <- DS_1[filter Me_1 > 0][calc Me_3 := Me_1 * 2, Me_4 := Me_2 || \"x\"];"),
    ("first-last", "DS_r <- DS_1[calc Me_3 := first_value(Me_1 over (partition by Id_2 order by Id_1)), Me_4 := last_value(Me_1 over (partition by Id_2 order by Id_1 desc))];"),
    ("lag-lead", "DS_r <- DS_1[calc Me_3 := lag(Me_1, 1 over (partition by Id_2 order by Id_1)), Me_4 := lead(Me_1, 1 over (partition by Id_2 order by Id_1))];"),
    ("running-sum", "DS_r <- DS_1[calc Me_3 := sum(Me_1 over (partition by Id_2 order by Id_1 data points between unbounded preceding and current data point))];"),
    ("rank", "DS_r <- DS_1[calc Me_3 := rank(over (partition by Id_2 order by Id_1))];"),
    ("ratio", "DS_r <- DS_1[calc Me_3 := ratio_to_report(Me_1 over (partition by Id_1))];"),
    ("lag-partition-except", "DS_r <- DS_1[calc Me_3 := lag(Me_1, 1 over (partition except Id_1 order by Id_1))];"),
    ("first-partition-except", "DS_r <- DS_1[calc Me_3 := first_value(Me_1 over (partition except Id_1 order by Id_1 desc))];"),
    ("lag-dataset-partition-except", "DS_r <- lag(DS_1[keep Me_1], 1 over (partition except Id_1 order by Id_1));"),
    ("count-all", "DS_r <- count(DS_1 group by Id_2);"),
    ("exists_in", "DS_r <- exists_in(DS_1, DS_2, all);"),
    ("sub", "DS_r <- DS_1[sub Id_2 = \"a\"];"),
    ("check", "DS_r <- check(DS_1[keep Me_1] > DS_2[keep Me_1] errorcode \"E\" errorlevel 1 imbalance DS_1[keep Me_1] - DS_2[keep Me_1] all);"),
]
TS_SCRIPTS = [
    ("flow_to_stock", "DS_r <- flow_to_stock(DS_1);"),
    ("stock_to_flow", "DS_r <- stock_to_flow(DS_1);"),
    ("timeshift", "DS_r <- timeshift(DS_1, 1);"),
    ("fill_time_series", "DS_r <- fill_time_series(DS_1, all);"),
    ("time_agg", "DS_r <- sum(DS_1 group all time_agg(\"A\", _));"),
]


def shards(tier, seed):
    return [{"shard": i, "nshards": NSH} for i in range(NSH)]


def gen_inputs(rng, n_rows):
    ids1 = [1, 2, 3, 4, 5, 6]
    ids2 = ["a", "b"]
    keys = [(i, s) for i in ids1 for s in ids2]
    out = {}
    for name in ("DS_1", "DS_2"):
        rng.shuffle(keys)
        rows = []
        for k in keys[:n_rows]:
            rows.append((k[0], k[1], None if rng.random() < 0.15 else rng.choice([1.5, -2.0, 3.25, 0.0, 10.0, 7.75, 4.5]),
                         None if rng.random() < 0.15 else rng.choice(["x", "y", "zz", "", "Ab"])))
        out[name] = rows
    return out


def gen_ts_inputs(rng, n_rows):
    periods = ["2020M1", "2020M2", "2020M4", "2020M7", "2020M12", "2021M1"]
    keys = [(s, p) for s in ("a", "b") for p in periods]
    rng.shuffle(keys)
    return {"DS_1": [(k[0], k[1], None if rng.random() < 0.1 else rng.choice([1.0, 2.5, -3.0, 10.0])) for k in keys[:n_rows]]}


def materialise(form, comps_by_ds, rows_by_ds, col_orders, tag):
    """datapoints argument for run() in the requested form; rows as given (already permuted)."""
    import pandas as pd
    from pathlib import Path
    from vf import eng
    d = os.path.join(eng.SCRATCH, "c33", tag)
    os.makedirs(d, exist_ok=True)
    out = {}
    for name, rows in rows_by_ds.items():
        cols = [c[0] for c in comps_by_ds[name]]
        df = eng.mkdf(cols, rows)
        order = col_orders.get(name) or cols
        df = df[order]
        if form == "df":
            out[name] = df
        elif form == "csv":
            p = os.path.join(d, f"{name}.csv")
            df.to_csv(p, index=False)
            out[name] = Path(p)
        else:
            p = os.path.join(d, f"{name}.parquet")
            sdf = df.copy()
            for c in sdf.columns:
                vals = [v for v in sdf[c].tolist() if v is not None]
                if vals and all(isinstance(v, str) for v in vals):
                    sdf[c] = sdf[c].astype("string")
                elif vals and all(isinstance(v, int) and not isinstance(v, bool) for v in vals):
                    sdf[c] = sdf[c].astype("Int64")
                elif vals:
                    sdf[c] = sdf[c].astype("Float64")
                else:
                    sdf[c] = sdf[c].astype("string")
            sdf.to_parquet(p, index=False)
            out[name] = Path(p)
    return out


def run_gen_case(case, emit, tier, bud=None):
    from vf import eng
    rng = random.Random(case["seed"])
    fam, script = case["family"], case["script"]
    ts = case["ts"]
    comps = TS if ts else COMPS
    rows_by = {k: [tuple(r) for r in v] for k, v in case["rows"].items()}
    comps_by = {k: comps for k in rows_by}
    st = eng.structures(*[eng.mkds(k, comps) for k in rows_by])
    form = case["form"]
    base = eng.call(eng.run, script, st, materialise(form, comps_by, rows_by, {}, "base"))
    if base[0] == "exc":
        emit({"v": "skip", "why": f"baseline rejected ({fam}): {type(base[1]).__name__} {str(base[1])[:80]}"})
        return
    d0 = eng.result_digest(base[1])
    n = len(rows_by["DS_1"])
    full_bound = 4 if tier == "quick" else 6
    if n <= full_bound:
        perms = list(itertools.permutations(range(n)))[1:]
        if tier == "quick" and len(perms) > 23:
            perms = perms[:23]
        if len(perms) > 200:
            # all permutations of DS_1; the budget decides how many of the 719 are reached, in random order
            rng.shuffle(perms)
        exhaustive = True
    else:
        perms = []
        for _ in range(6 if tier == "quick" else 40):
            p = list(range(n))
            rng.shuffle(p)
            perms.append(tuple(p))
        exhaustive = False
    for p in perms:
        if bud is not None and not bud.ok():
            emit({"v": "inc", "why": "permutations of this case cut by wall-clock budget"})
            break
        pr = dict(rows_by)
        pr["DS_1"] = [rows_by["DS_1"][i] for i in p]
        if "DS_2" in pr:
            r2 = list(pr["DS_2"])
            rng.shuffle(r2)
            pr["DS_2"] = r2
        colshuf = rng.random() < 0.5
        orders = {}
        if colshuf:
            for k in pr:
                o = [c[0] for c in comps]
                rng.shuffle(o)
                orders[k] = o
        st_, r = eng.call(eng.run, script, st, materialise(form, comps_by, pr, orders, "perm"))
        bucket = f"gen:{fam}/{form}/rows={n}{'-all-perms' if exhaustive else ''}/cols={colshuf}"
        if st_ == "exc":
            emit({"v": "viol", "b": bucket, "mech": f"{fam}/permuted-input-rejected/{type(r).__name__}",
                  "what": f"{script} accepted the original rows but raised {type(r).__name__} on permutation {p}: {str(r)[:160]}",
                  "case": dict(case, perm=list(p))})
            continue
        d = eng.digests_equal(eng.result_digest(r), d0)
        if d:
            emit({"v": "viol", "b": bucket, "mech": f"{fam}/result-depends-on-{'column' if colshuf and list(p) == sorted(p) else 'row'}-order",
                  "what": f"{script} on {form}: permutation {p} cols={orders}: {d}", "case": dict(case, perm=list(p))})
        else:
            emit({"v": "held", "b": bucket, "sample": {"script": script, "form": form, "rows": n, "perm": list(p), "cols_shuffled": colshuf}})


def run_frame_case(rng, emit, tier):
    """DataFrame inputs with the features a loader inspects row by row or column by column: a nullable Date column mixing missing,
    date-only and timed values, a byte-order mark in front of one header (as read from a BOM-encoded CSV without utf-8-sig),
    object / string dtypes; all row permutations x shuffled columns against the frame in its original order"""
    import pandas as pd
    from vf import eng
    comps = [("Id_1", "Integer", "Identifier", False), ("Id_2", "String", "Identifier", False), ("Me_d", "Date", "Measure", True), ("Me_1", "Number", "Measure", True)]
    st = eng.structures(eng.mkds("DS_1", comps))
    pool = [None, "2020-01-15 10:30:00", "2020-01-16", "2021-03-01T08:00:00", None, "1999-12-31"]
    n = 4
    rows = [(i + 1, rng.choice(["a", "b"]) + str(i), pool[(i + rng.randrange(2)) % len(pool)] if i else rng.choice([None, "2020-01-15 10:30:00"]), rng.choice([1.5, None, -2.0])) for i in range(n)]
    if not any(r[2] and len(r[2]) > 10 for r in rows):
        rows[1] = rows[1][:2] + ("2020-01-15 10:30:00",) + rows[1][3:]
    if all(r[2] is not None for r in rows):
        rows[2] = rows[2][:2] + (None,) + rows[2][3:]
    bom_col = rng.choice([None, "Id_1", "Me_1", "Id_2"])
    script = rng.choice(["DS_r <- DS_1;", "DS_r <- DS_1[calc Me_2 := Me_d];", "DS_r <- DS_1[filter Id_1 > 0];"])

    def frame(rs, order):
        df = pd.DataFrame({c[0]: [r[j] for r in rs] for j, c in enumerate(comps)}, dtype=object)[order]
        if bom_col:
            df = df.rename(columns={bom_col: "﻿" + bom_col})
        return df
    names = [c[0] for c in comps]
    base = eng.call(eng.run, script, st, {"DS_1": frame(rows, names)})
    if base[0] == "exc":
        emit({"v": "skip", "why": f"frame baseline rejected: {type(base[1]).__name__} {str(base[1])[:60]}"})
        return
    d0 = eng.result_digest(base[1])
    perms = list(itertools.permutations(range(n)))[1:]
    if tier == "quick":
        rng.shuffle(perms)
        perms = perms[:9]
    for p in perms:
        order = names[:]
        rng.shuffle(order)
        s_, r = eng.call(eng.run, script, st, {"DS_1": frame([rows[i] for i in p], order)})
        b = f"gen:frame/df/bom={bom_col is not None}/rows={n}-all-perms"
        case = {"frame": {"rows": [list(x) for x in rows], "perm": list(p), "order": order, "bom": bom_col, "script": script}}
        if s_ == "exc":
            emit({"v": "viol", "b": b, "mech": f"frame/permuted-input-rejected/{type(r).__name__}", "what": f"{script}: original frame accepted, rows {p} / columns {order} (BOM on {bom_col}) raised {type(r).__name__}: {str(r)[:140]}", "case": case})
            continue
        d = eng.digests_equal(eng.result_digest(r), d0)
        if d:
            emit({"v": "viol", "b": b, "mech": f"frame/result-depends-on-{'column' if list(p) == sorted(p) else 'row-or-column'}-order", "what": f"{script}: rows {p} / columns {order} (BOM on {bom_col}): {d}", "case": case})
        else:
            emit({"v": "held", "b": b, "sample": {"script": script, "perm": list(p), "columns": order, "bom": bom_col}})


def run_sdmxcsv_case(rng, emit, tier):
    """SDMX-CSV style file (STRUCTURE / STRUCTURE_ID / ACTION columns, rows marked D are deletions): the result must not
    depend on where those columns sit nor on the row order"""
    from pathlib import Path
    from vf import eng
    comps = [("Id_1", "Integer", "Identifier", False), ("Id_2", "String", "Identifier", False), ("Me_1", "Number", "Measure", True)]
    st = eng.structures(eng.mkds("DS_1", comps))
    n = rng.randint(3, 6)
    rows = []
    for i in range(n):
        rows.append({"STRUCTURE": "dataflow", "STRUCTURE_ID": "MD:DF1(1.0)", "ACTION": rng.choice(["I", "A", "D", "I"]), "Id_1": str(i + 1),
                     "Id_2": rng.choice(["a", "b"]), "Me_1": str(rng.choice([1.5, 2.0, -3.25, 10.0]))})
    if not any(r["ACTION"] == "D" for r in rows):
        rows[rng.randrange(n)]["ACTION"] = "D"
    canon = ["STRUCTURE", "STRUCTURE_ID", "ACTION", "Id_1", "Id_2", "Me_1"]
    d = os.path.join(eng.SCRATCH, "c33s")
    os.makedirs(d, exist_ok=True)

    def write(cols, rws, tag):
        p = os.path.join(d, f"{tag}.csv")
        with open(p, "w") as f:
            f.write(",".join(cols) + "\n" + "".join(",".join(r[c] for c in cols) + "\n" for r in rws))
        return Path(p)
    script = "DS_r <- DS_1;"
    s0, r0 = eng.call(eng.run, script, st, {"DS_1": write(canon, rows, "b")})
    if s0 == "exc":
        emit({"v": "skip", "why": f"sdmx-csv baseline rejected: {type(r0).__name__}"})
        return
    d0 = eng.result_digest(r0)
    case = {"sdmxcsv": rows}
    for i in range(6 if tier == "quick" else 24):
        cols = canon[:]
        rng.shuffle(cols)
        rws = rows[:]
        rng.shuffle(rws)
        s, r = eng.call(eng.run, script, st, {"DS_1": write(cols, rws, "p")})
        bucket = f"gen:sdmx-csv/csv/rows={n}/first_col={cols[0]}"
        if s == "exc":
            emit({"v": "viol", "b": bucket, "mech": f"sdmx-csv/permuted-input-rejected/{type(r).__name__}", "what": f"SDMX-CSV with columns {cols}: {type(r).__name__}: {str(r)[:160]} (canonical order is accepted)", "case": dict(case, cols=cols)})
            continue
        dd = eng.digests_equal(eng.result_digest(r), d0)
        if dd:
            emit({"v": "viol", "b": bucket, "mech": "sdmx-csv/result-depends-on-column-order", "what": f"SDMX-CSV with columns {cols}: {dd}", "case": dict(case, cols=cols)})
        else:
            emit({"v": "held", "b": bucket, "sample": {"columns": cols, "rows": n, "deleted_rows": sum(1 for x in rows if x['ACTION'] == 'D')}})


_SKIP = re.compile(r"\bover\s*\(|current_date|random\s*\(|\brank\b|first_value|last_value|\blag\b|\blead\b", re.I)


def run_corpus_case(c, emit, rng, tier):
    import pandas as pd
    from vf import corpus, eng
    try:
        kw = corpus.run_kwargs(c)
    except Exception as e:  # noqa: BLE001
        emit({"v": "skip", "why": f"corpus load {type(e).__name__}"})
        return
    if _SKIP.search(kw["script"]):
        emit({"v": "skip", "why": "script has analytic clauses / current_date / random"})
        return
    try:
        frames = {k: pd.read_csv(p, dtype=str, keep_default_na=False, na_values=[""], encoding="utf-8-sig") for k, p in kw["datapoints"].items()}
    except Exception as e:  # noqa: BLE001
        emit({"v": "skip", "why": f"csv not readable by pandas: {type(e).__name__}"})
        return
    form = rng.choice(["csv", "df"])
    d = os.path.join(eng.SCRATCH, "c33c")
    os.makedirs(d, exist_ok=True)

    def mat(fr, tag):
        from pathlib import Path
        out = {}
        for k, df in fr.items():
            if form == "df":
                out[k] = df.copy()
            else:
                p = os.path.join(d, f"{tag}_{k}.csv")
                df.to_csv(p, index=False)
                out[k] = Path(p)
        return out
    kw0 = dict(kw, datapoints=mat(frames, "b"), return_only_persistent=False)
    s0, r0 = eng.call(eng.run, **kw0)
    if s0 == "exc":
        emit({"v": "skip", "why": "corpus case rejected in this input form: " + type(r0).__name__})
        return
    d0 = eng.result_digest(r0)
    maxrows = max([len(f) for f in frames.values()] or [0])
    for i in range(2 if tier == "quick" else 4):
        colshuf = i % 2 == 1
        fr = {}
        for k, df in frames.items():
            idx = list(range(len(df)))
            rng.shuffle(idx)
            df2 = df.iloc[idx].reset_index(drop=True)
            if colshuf:
                cols = list(df2.columns)
                rng.shuffle(cols)
                df2 = df2[cols]
            fr[k] = df2
        s, r = eng.call(eng.run, **dict(kw, datapoints=mat(fr, "p"), return_only_persistent=False))
        bucket = f"corpus:{c['area'].split('/')[0]}/{form}/rows={'1-' if maxrows <= 1 else ('few' if maxrows <= 6 else 'many')}/cols={colshuf}"
        if maxrows <= 1 and not colshuf:
            bucket = "trivial-single-row"
        case = {"corpus": c, "form": form}
        if s == "exc":
            emit({"v": "viol", "b": bucket, "mech": f"corpus/permuted-input-rejected/{type(r).__name__}",
                  "what": f"{c['id']} ({form}) raised {type(r).__name__} after permuting rows{'/columns' if colshuf else ''}: {str(r)[:160]}", "case": case})
            continue
        dd = eng.digests_equal(eng.result_digest(r), d0)
        if dd:
            emit({"v": "viol", "b": bucket, "mech": f"corpus/result-depends-on-{'column' if colshuf else 'row'}-order",
                  "what": f"{c['id']} ({form}): {dd}", "case": case})
        else:
            emit({"v": "held", "b": bucket, "sample": {"corpus": c["id"], "form": form, "rows": maxrows, "cols_shuffled": colshuf}})


def run_shard(spec, emit):
    from vf import eng, rider
    rng = random.Random(f"C33-{spec['seed']}-{spec['shard']}")
    tier = spec["tier"]
    bud = eng.Budget(spec.get("budget_s", 100 if tier == "quick" else 2400))
    fams = [(f, s, False) for f, s in SCRIPTS] + [(f, s, True) for f, s in TS_SCRIPTS]
    mine = [x for i, x in enumerate(fams) if i % spec["nshards"] == spec["shard"] % len(fams) or tier == "thorough" and (i + spec["shard"]) % 4 == 0]
    for fam, script, ts in mine:
        for n in ([3, 4, 9] if tier == "quick" else [3, 4, 5, 6, 12]):
            if not bud.ok():
                break
            rows = gen_ts_inputs(rng, n) if ts else gen_inputs(rng, n)
            case = {"family": fam, "script": script, "ts": ts, "rows": {k: [list(r) for r in v] for k, v in rows.items()},
                    "form": rng.choice(["csv", "df", "parquet"]), "seed": rng.randrange(1 << 30)}
            run_gen_case(case, emit, tier, bud)
    for _ in range(2 if tier == "quick" else 10):
        run_sdmxcsv_case(rng, emit, tier)
        run_frame_case(rng, emit, tier)
    for c in rider.corpus_slice(spec, quick_fraction=8, tag="C33"):
        if not bud.ok():
            emit({"v": "inc", "why": "cut by wall-clock budget"})
            break
        run_corpus_case(c, emit, rng, tier)


def replay(case, emit):
    rng = random.Random(0)
    if "corpus" in case:
        run_corpus_case(case["corpus"], emit, rng, "thorough")
    else:
        run_gen_case(case, emit, "thorough")
