"""C19 — run() rejects every input that violates its declared structure.
Monitor: run('DS_r <- DS_1;') on generated tables in CSV and DataFrame form vs an independent, three-valued validity
model written from docs/data_types.rst and the calendar."""
import os
import random

ID = "C19"
LEVEL = "exploration"
RULE = ("generated tables over every component type and role, with documented-valid cells in every input spelling, "
        "documented-invalid cells (month 13, week 54, day 366 of a common year, year outside 1800-9999, reversed intervals, "
        "fractional / hexadecimal integers, bad booleans, partial times ...), undocumented cells (never decide) and table-level "
        "violations (duplicate keys, null identifier, missing identifier column, missing non-nullable column, null in a "
        "non-nullable component); forms csv and DataFrame of strings. Oracle: invalid table accepted -> violation; valid table "
        "rejected -> violation; a rejection that is not a DataLoadError / InputValidationException -> violation; accepted "
        "values denote the input value (numbers numerically, dates and periods in the documented output form). "
        "Bucket = (violation kind or 'valid', component type, role, form); one evaluation = one table in one form.")
ASSUMPTIONS = ["cells the documentation does not classify (e.g. '+42', '7.0', ISO durations, week 53 of a 52-week year) never decide"]
FLOORS = {"quick": (400, 60), "thorough": (9000, 120)}
NSH = 16
N = {"quick": 45, "thorough": 1000}
FORMS = ["csv", "df-object"]


def shards(tier, seed):
    return [{"shard": i, "nshards": NSH, "n": N[tier]} for i in range(NSH)]


def tag_of(case):
    import re
    bad = [c[0] for c in case["cells"] if c[1] == "invalid"]
    if not bad:
        return "+".join(sorted(set(case["viol"]))) or "valid"
    c = bad[0]
    t = case["type"]
    if re.fullmatch(r"0x[0-9A-Fa-f]+", c):
        return "hex"
    if re.fullmatch(r"-?\d+\.\d*[1-9]\d*", c) and t == "Integer":
        return "fractional"
    if t in ("Date", "Time_Period") and re.match(r"^(1799|10000)", c):
        return "year-outside-1800-9999"
    if t == "Boolean" and c.lower() in ("yes", "no", "t", "f", "y", "n"):
        return "boolean-word"
    if t == "Time" and "/" in c:
        a, _, b = c.partition("/")
        if re.fullmatch(r"\d{4}-\d{2}-\d{2}", a) and re.fullmatch(r"\d{4}-\d{2}-\d{2}", b):
            try:
                import datetime
                da, db = datetime.date.fromisoformat(a), datetime.date.fromisoformat(b)
                return "reversed-interval" if da > db else "interval"
            except ValueError:
                return "impossible-calendar-date-in-interval"
    if t == "Time_Period":
        m = re.fullmatch(r"(\d{4})-?([A-Za-z])-?(\d+)", c)
        if m:
            return "period-number-out-of-range" if m.group(2).upper() in "ASQMWD" else "unknown-period-indicator"
        if re.fullmatch(r"\d{4}-\d{2}(-\d{2})?", c):
            return "impossible-calendar-date"
    if t == "Date" and re.fullmatch(r"\d{4}-\d{2}-\d{2}", c):
        return "impossible-calendar-date"
    return "cell:" + c[:14]


def run_case(case, emit):
    from vf import eng, inputs
    from vf.props.c18 import run_forms
    verdict = inputs.verdict(case)
    outs = run_forms(case, FORMS)
    kind = "+".join(sorted(case["viol"])) or "valid"
    real_emit, recs = emit, []
    emit = recs.append
    _judge_forms(case, outs, verdict, kind, emit)
    vio = [r for r in recs if r["v"] == "viol"]
    stripped = {r["mech"].replace(f"/{f}", "") for r in vio for f in FORMS if f"/{f}" in r["mech"]}
    if len(vio) == len(outs) and len(stripped) == 1:
        for r in vio:
            r["mech"] = next(iter(stripped))          # every form shows the same anomaly: one mechanism
    else:
        for r in vio:
            r["mech"] += "-only"
    for r in recs:
        real_emit(r)


def _judge_forms(case, outs, verdict, kind, emit):
    from vf import eng
    for form, o in outs.items():
        bucket = f"{kind}/{case['type']}/{case['role']}/{form}"
        cells = [c[0] for c in case["cells"]]
        what = f"{case['type']} {case['role']} ({form}) cells {cells} violations {case['viol']}"
        if o[0] == "other-error":
            emit({"v": "viol", "b": bucket, "mech": f"{case['type']}/rejected-with-{o[1]}:{o[2]}/{form}/{tag_of(case)}",
                  "what": f"{what}: rejected with {o[1]} {o[2]}, not a VTL input error", "case": case})
            continue
        if verdict == "unspecified":
            emit({"v": "inc", "why": "table contains a cell the documentation does not classify"})
            continue
        if verdict == "invalid" and o[0] == "ok":
            emit({"v": "viol", "b": bucket, "mech": f"{case['type']}/invalid-input-accepted/{form}/{tag_of(case)}", "what": f"{what}: accepted, returned {o[1][:3]}", "case": case})
            continue
        if verdict == "valid" and o[0] != "ok":
            emit({"v": "viol", "b": bucket, "mech": f"{case['type']}/valid-input-rejected/{form}/{o[1]}:{o[2]}", "what": f"{what}: rejected with {o[1]} {o[2]}", "case": case})
            continue
        if o[0] == "ok":
            # values denote the input
            cols = o[2]
            xi, ii = cols.index("X"), (cols.index("Id_1") if "Id_1" in cols else None)
            got = {(r[ii] if ii is not None else 0): r[xi] for r in o[1]}
            wrong = None
            for row, c in zip(case["rows"], case["cells"]):
                exp = c[2]
                g = got.get(row[0] if ii is not None else 0)
                if c[0] == "":
                    if g is not None and case["type"] != "String":
                        wrong = (c[0], g, None)
                    continue
                if exp is None:
                    continue
                if case["type"] == "Date" and isinstance(g, str) and isinstance(exp, str) and len(exp) == 10:
                    ok = g == exp or g == exp + "T00:00:00"
                else:
                    ok = eng.close(g, exp, 1e-9) if not isinstance(exp, str) else g == exp
                if not ok:
                    wrong = (c[0], g, exp)
                    break
            if wrong:
                emit({"v": "viol", "b": bucket, "mech": f"{case['type']}/accepted-value-differs/{form}", "what": f"{what}: cell {wrong[0]!r} returned as {wrong[1]!r}, expected {wrong[2]!r}", "case": case})
                continue
        emit({"v": "held", "b": bucket, "sample": {"type": case["type"], "form": form, "cells": cells, "violations": case["viol"], "outcome": o[0]}})


def run_shard(spec, emit):
    from vf import eng, inputs
    rng = random.Random(f"C19-{spec['seed']}-{spec['shard']}")
    bud = eng.Budget(spec.get("budget_s", 100 if spec["tier"] == "quick" else 2400))
    for i, case in enumerate(inputs.cell_sweep()):          # deterministic: every catalogued cell once
        if i % spec["nshards"] == spec["shard"]:
            run_case(case, emit)
    for _ in range(spec["n"]):
        if not bud.ok():
            emit({"v": "inc", "why": "cut by wall-clock budget"})
            break
        run_case(inputs.make_table(rng), emit)


def replay(case, emit):
    run_case(case, emit)
