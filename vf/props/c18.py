"""C18 — CSV, DataFrame and Parquet inputs with the same content behave identically.
Differential monitor across input forms: the same table of cell texts is given to run() as a CSV file, as DataFrames
(object strings, 'string' dtype, native dtypes when representable) and as Parquet files (string / native)."""
import os
import random

ID = "C18"
LEVEL = "exploration"
RULE = ("generated (structure, table) pairs over every component type and role with valid, boundary, invalid and undocumented "
        "cells (fractional integers, hex, padded values, exponent forms, every boolean spelling, dates with/without time and "
        "zone, every period spelling, out-of-range calendar values, nulls) and table-level violations, each materialised in "
        "4-6 forms; script DS_r <- DS_1. Oracle: all forms agree — all rejected with a VTL input error (DataLoadError / "
        "InputValidationException) or all accepted with equal results. Excluded because the forms cannot carry the same content: "
        "double quotes inside String cells and empty-string vs null in String columns. "
        "Bucket = (component type, role, cell class, outcome class, forms materialised); one evaluation = one table across its forms.")
ASSUMPTIONS = ["a native-dtype form is only produced when every cell of the column has an exact native value"]
FLOORS = {"quick": (120, 40), "thorough": (2500, 80)}
NSH = 16
N = {"quick": 30, "thorough": 700}


def shards(tier, seed):
    return [{"shard": i, "nshards": NSH, "n": N[tier]} for i in range(NSH)]


def run_forms(case, forms=None):
    from vf import eng, inputs
    st = inputs.structure(case)
    work = os.path.join(eng.SCRATCH, "inputs")
    outs = {}
    for form in forms or inputs.FORMS:
        dp = inputs.materialise(case, form, work, "t")
        if dp is None:
            continue
        status, res = eng.call(eng.run, "DS_r <- DS_1;", st, {"DS_1": dp})
        outs[form] = inputs.outcome(status, res, case)
    return outs


def cell_class(case):
    v = case["viol"]
    if v:
        return "+".join(sorted(v))
    return "valid"


def cell_tag(case, symptom):
    """what in the table triggers the disagreement (part of the mechanism key)"""
    import re
    if symptom.startswith("values-differ"):
        if case["type"] == "Date":
            return "time-of-day-present" if any(re.search(r"\d[T ]\d\d:", c[0]) for c in case["cells"]) else "date-only"
        return cell_class(case)
    bad = [c[0] for c in case["cells"] if c[1] != "valid"]
    tags = set()
    for c in bad:
        if re.fullmatch(r"0x[0-9A-Fa-f]+", c):
            tags.add("hex")
        elif re.fullmatch(r"-?\d+\.\d*[1-9]\d*", c):
            tags.add("fractional")
        elif c != c.strip():
            tags.add("padded")
        elif re.fullmatch(r"[-+]?\d+(\.\d+)?[eE][-+]?\d+", c):
            tags.add("exponent")
        else:
            tags.add("cell:" + c[:12])
    return "+".join(sorted(tags)) or cell_class(case)


def run_case(case, emit):
    outs = run_forms(case)
    kinds = {f: o[0] for f, o in outs.items()}
    bucket = f"{case['type']}/{case['role']}/{cell_class(case)}/{'+'.join(sorted(set(kinds.values())))}/forms={len(outs)}"
    ref_form = "csv"
    ref = outs[ref_form]
    bad = None
    rej = lambda o: o[0] != "ok"  # noqa: E731   (which error class rejects is C19's subject; here only accept/reject and values)
    for f, o in outs.items():
        if rej(o) != rej(ref):
            bad = (f"{ref_form}-{'rejects' if rej(ref) else 'accepts'}-but-{f}-{'rejects' if rej(o) else 'accepts'}", f"csv -> {ref[:2]}, {f} -> {o[:2]}")
            break
        if rej(o) and o[0] != ref[0]:
            # both reject, but one with a VTL input error and the other with something else (a crash is not 'the same behaviour')
            bad = (f"rejection-kind-differs/{ref_form}:{ref[0]}-vs-{f}:{o[0]}", f"csv -> {ref[:3]}, {f} -> {o[:3]}")
            break
        if o[0] == "ok" and (o[1] != ref[1]):
            bad = (f"values-differ/{ref_form}-vs-{f}", f"csv rows {ref[1]} vs {f} rows {o[1]}")
            break
    cells = [c[0] for c in case["cells"]]
    if bad:
        emit({"v": "viol", "b": bucket, "mech": f"{case['type']}/{bad[0]}/{cell_tag(case, bad[0])}", "what": f"{case['type']} {case['role']} cells {cells}: {bad[1]}", "case": case})
    else:
        emit({"v": "held", "b": bucket, "sample": {"type": case["type"], "cells": cells, "outcome": ref[0], "forms": sorted(outs)}})


def run_shard(spec, emit):
    from vf import eng, inputs
    rng = random.Random(f"C18-{spec['seed']}-{spec['shard']}")
    bud = eng.Budget(spec.get("budget_s", 100 if spec["tier"] == "quick" else 2400))
    for i, case in enumerate(inputs.cell_sweep()):          # deterministic: every catalogued cell once
        if i % spec["nshards"] == spec["shard"]:
            run_case(case, emit)
    for _ in range(spec["n"]):
        if not bud.ok():
            emit({"v": "inc", "why": "cut by wall-clock budget"})
            break
        run_case(inputs.make_table(rng), emit)


def replay(case, emit):
    run_case(case, emit)
