"""C21 — Time_Period values round-trip through every input and output representation.
Exhaustive monitor over 1900-2100: every period x every documented input spelling x the four output formats, observed on
three paths: (i) run() with output_folder (file written from SQL), (ii) run() in memory (SQL then Python formatting),
(iii) the Python implementation alone (check_time_period + TimePeriodHandler renderers). The renderer/parser of the
oracle is written from the docs tables."""
import datetime
import os

ID = "C21"
LEVEL = "exploration"
EXHAUSTIVE = True
RULE = ("every valid period of every indicator for all years 1900-2100 (A 201, S 402, Q 804, M 2412, W with the 53-week years, D "
        "with day 366 of leap years; quick: daily periods of 12 sample years) plus sampled years of 1800-9999, written in every "
        "documented input spelling, read by run() and rendered in the four output formats on three paths (file written with "
        "output_folder; in-memory result; Python parser/renderer alone). Oracle from docs/data_types.rst: all spellings denote "
        "the same period; each format renders as documented or fails with a VTL error when it cannot express the indicator; "
        "feeding the rendering back as input yields the same period; the three paths agree. "
        "Bucket = (indicator, spelling, format, path); one evaluation = one (dataset of periods, spelling, format, path).")
ASSUMPTIONS = ["ISO week numbering (date.fromisocalendar) defines which years have week 53"]
FLOORS = {"quick": (300, 120), "thorough": (500, 150)}
NSH = 16
FORMATS = ["vtl", "sdmx_reporting", "sdmx_gregorian", "natural"]


def shards(tier, seed):
    return [{"shard": i, "nshards": NSH} for i in range(NSH)]


def weeks_in(y):
    return datetime.date(y, 12, 28).isocalendar()[1]


def days_in(y):
    return 366 if (y % 4 == 0 and (y % 100 != 0 or y % 400 == 0)) else 365


def periods(ind, years):
    for y in years:
        n = {"A": 1, "S": 2, "Q": 4, "M": 12, "W": weeks_in(y), "D": days_in(y)}[ind]
        for k in range(1, n + 1):
            yield (y, k)


def spellings(ind):
    """{name: fn(y, k) -> text} from the 'Accepted input formats' table"""
    if ind == "A":
        return {"YYYY": lambda y, k: f"{y}", "YYYYA": lambda y, k: f"{y}A", "YYYY-A1": lambda y, k: f"{y}-A1"}
    if ind == "S":
        return {"YYYYSx": lambda y, k: f"{y}S{k}", "YYYY-Sx": lambda y, k: f"{y}-S{k}"}
    if ind == "Q":
        return {"YYYYQx": lambda y, k: f"{y}Q{k}", "YYYY-Qx": lambda y, k: f"{y}-Q{k}"}
    if ind == "M":
        return {"YYYYMm": lambda y, k: f"{y}M{k}", "YYYYMmm": lambda y, k: f"{y}M{k:02d}", "YYYY-MM": lambda y, k: f"{y}-{k:02d}", "YYYY-M": lambda y, k: f"{y}-{k}",
                "YYYY-Mxx": lambda y, k: f"{y}-M{k:02d}", "YYYY-Mx": lambda y, k: f"{y}-M{k}"}
    if ind == "W":
        return {"YYYYWw": lambda y, k: f"{y}W{k}", "YYYYWww": lambda y, k: f"{y}W{k:02d}", "YYYY-Wxx": lambda y, k: f"{y}-W{k:02d}"}
    return {"YYYYDd": lambda y, k: f"{y}D{k}", "YYYYDdd": lambda y, k: f"{y}D{k:02d}", "YYYYDddd": lambda y, k: f"{y}D{k:03d}",
            "YYYY-Dxxx": lambda y, k: f"{y}-D{k:03d}", "YYYY-MM-DD": lambda y, k: (datetime.date(y, 1, 1) + datetime.timedelta(days=k - 1)).isoformat()}


def render(fmt, ind, y, k):
    """documented rendering, or None when the format cannot express the indicator"""
    if fmt == "vtl":
        return f"{y}" if ind == "A" else f"{y}{ind}{k}"
    if fmt == "sdmx_reporting":
        return {"A": f"{y}-A1", "S": f"{y}-S{k}", "Q": f"{y}-Q{k}", "M": f"{y}-M{k:02d}", "W": f"{y}-W{k:02d}", "D": f"{y}-D{k:03d}"}[ind]
    d = (datetime.date(y, 1, 1) + datetime.timedelta(days=k - 1)).isoformat() if ind == "D" else None
    if fmt == "sdmx_gregorian":
        return {"A": f"{y}", "M": f"{y}-{k:02d}", "D": d}.get(ind)
    return {"A": f"{y}", "S": f"{y}-S{k}", "Q": f"{y}-Q{k}", "M": f"{y}-{k:02d}", "W": f"{y}-W{k:02d}", "D": d}[ind]


def run_block(ind, sp_name, texts, keys, emit, tier):
    """one dataset of periods in one spelling through every format and path"""
    import pandas as pd
    import shutil
    from pathlib import Path
    from vf import eng
    from vtlengine.DataTypes._time_checking import check_time_period
    from vtlengine.DataTypes.TimeHandling import TimePeriodHandler
    comps_rt = [("Id_1", "Integer", "Identifier", False), ("Me_1", "Time_Period", "Measure", True)]
    # a second, nullable Time_Period column (null on every third datapoint): formatting one column must not depend on the other
    comps = comps_rt + [("Me_2", "Time_Period", "Measure", True)]
    st = eng.structures(eng.mkds("DS_1", comps))
    work = os.path.join(eng.SCRATCH, "c21")
    os.makedirs(work, exist_ok=True)
    csvp = os.path.join(work, "DS_1.csv")
    with open(csvp, "w") as f:
        f.write("Id_1,Me_1,Me_2\n" + "".join(f"{i},{t},{'' if i % 3 == 0 else t}\n" for i, t in enumerate(texts)))
    n = len(texts)
    case0 = {"indicator": ind, "spelling": sp_name, "first": texts[0], "n": n}
    for fmt in FORMATS:
        want = [render(fmt, ind, y, k) for y, k in keys]
        expressible = want[0] is not None
        # ---- path ii: in memory ---------------------------------------------------------------
        results = {}
        s, r = eng.call(eng.run, "DS_r <- DS_1;", st, {"DS_1": Path(csvp)}, time_period_output_format=fmt)
        results["memory"] = (s, r, (lambda rr: dict(zip(rr["DS_r"].data["Id_1"].tolist(), rr["DS_r"].data["Me_1"].tolist()))) if s == "ok" else None)
        if fmt in ("vtl", "natural"):
            # the same load with the documented switch that skips the post-load checks (duplicates, temporal format, DWI cardinality):
            # the spellings must still denote the same periods
            os.environ["VTL_SKIP_LOAD_VALIDATION"] = "1"
            try:
                s4, r4 = eng.call(eng.run, "DS_r <- DS_1;", st, {"DS_1": Path(csvp)}, time_period_output_format=fmt)
            finally:
                os.environ.pop("VTL_SKIP_LOAD_VALIDATION", None)
            results["memory-skip-load-validation"] = (s4, r4, (lambda rr: dict(zip(rr["DS_r"].data["Id_1"].tolist(), rr["DS_r"].data["Me_1"].tolist()))) if s4 == "ok" else None)
        # ---- path i: file ---------------------------------------------------------------------
        out = os.path.join(work, "out")
        shutil.rmtree(out, ignore_errors=True)
        s2, r2 = eng.call(eng.run, "DS_r <- DS_1;", st, {"DS_1": Path(csvp)}, time_period_output_format=fmt, output_folder=out)

        def read_file(_):
            df = pd.read_csv(os.path.join(out, "DS_r.csv"), dtype=str, keep_default_na=False)
            return dict(zip((int(x) for x in df["Id_1"]), df["Me_1"].tolist()))
        results["file"] = (s2, r2, read_file if s2 == "ok" else None)
        # ---- path iii: python -----------------------------------------------------------------
        meth = {"vtl": "vtl_representation", "sdmx_reporting": "sdmx_reporting_representation", "sdmx_gregorian": "sdmx_gregorian_representation", "natural": "natural_representation"}[fmt]
        try:
            py = {}
            err = None
            for i, t in enumerate(texts if tier == "thorough" or n <= 3000 else texts[::7]):
                idx = i if tier == "thorough" or n <= 3000 else i * 7
                py[idx] = getattr(TimePeriodHandler(check_time_period(t)), meth)()
            results["python"] = ("ok", None, lambda _: py)
        except Exception as e:  # noqa: BLE001
            results["python"] = ("exc", e, None)
        for path, (status, res, getter) in results.items():
            b = f"{ind}/{sp_name}/{fmt}/{path}"
            case = dict(case0, format=fmt, path=path)
            if status == "exc":
                name, code, isvtl = eng.exc_info(res)
                if expressible:
                    emit({"v": "viol", "b": b, "mech": f"{ind}/{fmt}/{path}/raises-{name}/{sp_name}", "what": f"{n} {ind} periods written as {sp_name} (e.g. {texts[0]}): {path} path raised {name} {code}: {str(res)[:140]}", "case": case})
                elif not isvtl:
                    emit({"v": "viol", "b": b, "mech": f"{ind}/{fmt}/{path}/non-vtl-error-{name}", "what": f"{fmt} cannot express {ind}: expected a VTL error, got {name}: {str(res)[:120]}", "case": case})
                else:
                    emit({"v": "held", "b": b, "sample": dict(case, outcome=f"{name} {code}")})
                continue
            if not expressible:
                emit({"v": "viol", "b": b, "mech": f"{ind}/{fmt}/{path}/inexpressible-indicator-rendered", "what": f"{fmt} cannot express indicator {ind} but the {path} path returned values (e.g. {list(getter(res).values())[:2]})", "case": case})
                continue
            got = getter(res)
            bad = [(texts[i], got.get(i), want[i]) for i in got if got.get(i) != want[i]]
            if bad or (path != "python" and len(got) != n):
                emit({"v": "viol", "b": b, "mech": f"{ind}/{fmt}/{path}/wrong-rendering/{sp_name}",
                      "what": f"{len(bad)} of {n} {ind} periods ({sp_name}) rendered wrongly in {fmt} on the {path} path, e.g. input {bad[0][0]!r} -> {bad[0][1]!r}, documented {bad[0][2]!r}" if bad else f"{len(got)} rows for {n} periods", "case": case})
            else:
                emit({"v": "held", "b": b, "sample": dict(case, example=[texts[0], want[0]], periods=n)})
        # ---- round trip: the documented rendering fed back as input denotes the same period ------
        if expressible and fmt != "vtl":
            with open(csvp + ".rt", "w") as f:
                f.write("Id_1,Me_1\n" + "".join(f"{i},{t}\n" for i, t in enumerate(want)))
            os.replace(csvp + ".rt", os.path.join(work, "RT.csv"))
            st2 = eng.structures(eng.mkds("RT", comps_rt))
            s3, r3 = eng.call(eng.run, "DS_r <- RT;", st2, {"RT": Path(os.path.join(work, "RT.csv"))}, time_period_output_format="vtl")
            b = f"{ind}/{sp_name}/{fmt}/round-trip"
            exp = [render("vtl", ind, y, k) for y, k in keys]
            if s3 == "exc":
                emit({"v": "viol", "b": b, "mech": f"{ind}/{fmt}/round-trip/rendering-not-accepted-as-input", "what": f"the {fmt} rendering (e.g. {want[0]}) is rejected as input: {type(r3).__name__}: {str(r3)[:120]}", "case": dict(case0, format=fmt)})
            else:
                g = dict(zip(r3["DS_r"].data["Id_1"].tolist(), r3["DS_r"].data["Me_1"].tolist()))
                bad = [(want[i], g.get(i), exp[i]) for i in range(n) if g.get(i) != exp[i]]
                if bad:
                    emit({"v": "viol", "b": b, "mech": f"{ind}/{fmt}/round-trip/denotes-another-period", "what": f"{len(bad)} of {n}: {fmt} rendering {bad[0][0]!r} read back as {bad[0][1]!r}, expected {bad[0][2]!r}", "case": dict(case0, format=fmt)})
                else:
                    emit({"v": "held", "b": b})


def run_shard(spec, emit):
    from vf import eng  # noqa: F401
    tier = spec["tier"]
    years = list(range(1900, 2101))
    extra = [1800, 1801, 1899, 2101, 2400, 5000, 9998, 9999]
    day_years = years if tier == "thorough" else [1900, 1904, 1999, 2000, 2001, 2015, 2020, 2021, 2024, 2026, 2099, 2100]
    blocks = []
    for ind in "ASQMWD":
        ys = (day_years if ind == "D" else years) + extra
        keys = list(periods(ind, ys))
        for sp_name, fn in spellings(ind).items():
            blocks.append((ind, sp_name, keys, fn))
    for i, (ind, sp_name, keys, fn) in enumerate(blocks):
        if i % spec["nshards"] != spec["shard"]:
            continue
        texts = [fn(y, k) for y, k in keys]
        run_block(ind, sp_name, texts, keys, emit, tier)
        emit({"v": "ctr", "ctr": {f"periods_{ind}": len(keys)}})


def replay(case, emit):
    emit({"v": "inc", "why": "C21 is exhaustive over a finite range: re-run the check; point: " + str(case)[:200]})
