"""C30 — numeric precision settings are applied and validated as documented.
Monitor: run() under every integer setting -5..45 of OUTPUT_NUMBER_SIGNIFICANT_DIGITS and VTL_DUCKDB_DECIMAL_WIDTH
(set through os.environ between runs of one process, in random order, as the documentation describes, and in fresh
processes), compared with the ranges parsed from docs/environment_variables.rst and with decimal arithmetic."""
import os
import random
import re
from decimal import ROUND_HALF_EVEN, ROUND_HALF_UP, Decimal

ID = "C30"
LEVEL = "exploration"
EXHAUSTIVE = True
RULE = ("every integer -5..45 for each of the two variables (the other unset) plus a sample of the 51x51 grid, each (a) as one "
        "step of an in-process sequence in random order with an 'unset' step after every few settings and (b) in a fresh "
        "process; under each setting run() loads Number inputs that need more decimals than any scale, values that need all "
        "integer digits of the precision, values beyond it, and computes sums and differences. Oracle from "
        "docs/environment_variables.rst (ranges parsed at run time): outside the documented range -> RunTimeError 0-4-1-1 naming "
        "the variable; inside -> accepted, every input equals the value rounded to the configured scale (half-up or half-even; "
        "no exact ties generated), values that do not fit are rejected with a VTL input error, sums/differences equal decimal "
        "arithmetic at that scale up to float conversion; after unsetting, results equal the default configuration again. "
        "Bucket = (variable, setting class below/in/above/-1/unset, fresh or in-process, value class); one evaluation = one "
        "setting x value class.")
ASSUMPTIONS = ["a precision smaller than the scale (width < scale, both individually valid) is not documented: not judged"]
FLOORS = {"quick": (250, 25), "thorough": (1500, 30)}
NSH = 16
SCALE_VAR, WIDTH_VAR = "OUTPUT_NUMBER_SIGNIFICANT_DIGITS", "VTL_DUCKDB_DECIMAL_WIDTH"
DEFAULTS = {SCALE_VAR: 10, WIDTH_VAR: 28}


def shards(tier, seed):
    return [{"shard": i, "nshards": NSH} for i in range(NSH)]


def doc_ranges():
    """{var: (lo, hi, disable)} parsed from the docs of the current tree"""
    import vboot
    txt = open(os.path.join(vboot.REPO, "docs", "environment_variables.rst")).read()
    out = {}
    for var in (SCALE_VAR, WIDTH_VAR):
        sec = txt.split(f"``{var}``\n===", 1)[1].split("\n``", 1)[0] if f"``{var}``\n===" in txt else ""
        m = re.search(r"\* - ``(\d+)`` to ``(\d+)``", sec)
        d = re.search(r"\* - ``(-?\d+)``\s*\n\s*- Disables", sec)
        if not m:
            return None
        out[var] = (int(m.group(1)), int(m.group(2)), int(d.group(1)) if d else -1)
    return out


def klass(v, rng_):
    lo, hi, dis = rng_
    if v is None:
        return "unset"
    if v == dis:
        return "disable"
    return "below" if v < lo else ("above" if v > hi else "in")


def effective(var, v, rng_):
    lo, hi, dis = rng_
    if v is None:
        return DEFAULTS[var]
    if v == dis:
        return hi
    return v


COMPS = [("Id_1", "Integer", "Identifier", False), ("Me_1", "Number", "Measure", True)]
SCRIPT = "DS_r <- DS_1; DS_s <- DS_1[calc Me_2 := Me_1 + Me_1, Me_3 := Me_1 - 0.5];"
LONG_ALL = ["0.123456789012345678", "-0.387654321098765432", "3.000000000000000049", "12.3456784999", "0.25", "-7.25"]


def one_setting(setting, ranges, emit, mode, write_csv):
    """setting: {var: int|None}. Runs the value classes under it and judges them."""
    from pathlib import Path
    from vf import eng
    kls = {var: klass(setting.get(var), ranges[var]) for var in ranges}
    valid = all(k in ("in", "disable", "unset") for k in kls.values())
    scale = effective(SCALE_VAR, setting.get(SCALE_VAR), ranges[SCALE_VAR])
    width = effective(WIDTH_VAR, setting.get(WIDTH_VAR), ranges[WIDTH_VAR])
    tag = "/".join(f"{'scale' if var == SCALE_VAR else 'width'}={kls[var]}" for var in ranges)
    st = eng.structures(eng.mkds("DS_1", COMPS))
    case = {"setting": setting, "mode": mode}

    def run_rows(cells, script=SCRIPT):
        p = write_csv(cells)
        return eng.call(eng.run, script, st, {"DS_1": Path(p)}, return_only_persistent=False)

    # only values whose integer part (and that of x+x) fits the configured precision
    room = (width - scale) if valid else 18
    LONG = [c for c in LONG_ALL if len(str(int(abs(Decimal(c)) * 2))) <= max(room, 0) or abs(Decimal(c)) * 2 < 1] or LONG_ALL[:2]
    status, res = run_rows(LONG)
    if not valid:
        bad = [var for var in ranges if kls[var] in ("below", "above")]
        b = f"{tag}/{mode}/rejection"
        if status == "ok":
            emit({"v": "viol", "b": b, "mech": f"out-of-range-setting-accepted/{'+'.join('scale' if v == SCALE_VAR else 'width' for v in bad)}/{kls[bad[0]]}",
                  "what": f"{setting}: outside the documented range but run() returned", "case": case})
            return
        name, code, isvtl = eng.exc_info(res)
        if name != "RunTimeError" or code != "0-4-1-1" or not any(v in str(res) for v in bad):
            emit({"v": "viol", "b": b, "mech": f"out-of-range-setting-wrong-error/{name}/{'+'.join('scale' if v == SCALE_VAR else 'width' for v in bad)}/{kls[bad[0]]}",
                  "what": f"{setting}: expected RunTimeError 0-4-1-1 naming {bad}, got {name} {code}: {str(res)[:160]}", "case": case})
        else:
            emit({"v": "held", "b": b, "sample": {"setting": setting, "mode": mode, "outcome": f"{name} {code}"}})
        return
    if width < scale:
        emit({"v": "inc", "why": "precision smaller than scale: not documented"})
        return
    b = f"{tag}/{mode}"
    if status == "exc":
        name, code, _ = eng.exc_info(res)
        emit({"v": "viol", "b": b + "/rounding", "mech": f"valid-setting-rejected/{name}/{tag}", "what": f"{setting}: documented as valid but run() raised {name} {code}: {str(res)[:200]}", "case": case})
        return
    # (1) inputs rounded to the scale, (2) sums and differences
    q = Decimal(1).scaleb(-scale)
    tol = float(q) * 0.3
    probs = []
    got = {int(r[0]): r[1:] for r in eng.rows_of(res["DS_s"].data, ["Id_1", "Me_1", "Me_2", "Me_3"])}
    for i, cell in enumerate(LONG):
        d = Decimal(cell)
        cands = {d.quantize(q, rounding=ROUND_HALF_UP), d.quantize(q, rounding=ROUND_HALF_EVEN)}
        g = got.get(i + 1)
        if g is None or g[0] is None or not any(abs(g[0] - float(c)) <= tol for c in cands):
            probs.append(("input-not-rounded-to-scale", f"{cell} stored as {None if g is None else g[0]!r}, expected {sorted(map(str, cands))} at scale {scale}"))
            continue
        c = min(cands, key=lambda c_: abs(float(c_) - g[0]))
        if abs(g[1] - float(c + c)) > 2 * tol or abs(g[2] - float(c - Decimal("0.5"))) > 2 * tol:
            probs.append(("sum-or-difference", f"{cell}: x+x={g[1]!r} x-0.5={g[2]!r}, expected {c + c} and {c - Decimal('0.5')}"))
    if probs:
        emit({"v": "viol", "b": b + "/rounding", "mech": f"{probs[0][0]}/{tag}", "what": f"{setting}: {probs[:2]}", "case": case})
    else:
        emit({"v": "held", "b": b + "/rounding", "sample": {"setting": setting, "mode": mode, "scale": scale, "width": width}})
    # (2b) native float64 DataFrame input with many significant digits: stored value = shortest decimal text of the float, rounded to the scale
    if width - scale >= 8 and scale >= 1:
        import pandas as pd
        fl = [1234567.1234567, 1234567.1234566, 0.1, 2.675, 987654.000001, -1234567.7654321]
        k = "1234567.1234566"
        df = pd.DataFrame({"Id_1": list(range(1, len(fl) + 1)), "Me_1": fl})
        status, res = eng.call(eng.run, f"DS_s <- DS_1[calc Me_2 := Me_1 - {k}];", st, {"DS_1": df}, return_only_persistent=False)
        bb = b + "/float64-frame"
        if status == "exc":
            name, code, _ = eng.exc_info(res)
            emit({"v": "viol", "b": bb, "mech": f"float-frame-rejected/{name}/{tag}", "what": f"{setting}: float64 DataFrame input rejected: {name} {code}: {str(res)[:160]}", "case": case})
        else:
            got = {int(r[0]): r[1:] for r in eng.rows_of(res["DS_s"].data, ["Id_1", "Me_1", "Me_2"])}
            bad = None
            for i, x in enumerate(fl):
                d = Decimal(repr(x))
                cands = {d.quantize(q, rounding=ROUND_HALF_UP), d.quantize(q, rounding=ROUND_HALF_EVEN)}
                kd = {Decimal(k).quantize(q, rounding=ROUND_HALF_UP), Decimal(k).quantize(q, rounding=ROUND_HALF_EVEN), Decimal(k)}   # whether a script constant is rounded to the scale is not documented
                g = got.get(i + 1)
                ok_in = g is not None and g[0] is not None and any(abs(g[0] - float(c)) <= max(tol, abs(float(c)) * 4e-16) for c in cands)
                ok_diff = g is not None and g[1] is not None and any(abs(g[1] - float(c - kk)) <= max(tol, abs(float(c - kk)) * 4e-16) for c in cands for kk in kd)
                if not ok_in or not ok_diff:
                    bad = f"float {x!r}: stored {None if g is None else g[0]!r}, minus {k} = {None if g is None else g[1]!r}; expected {sorted(map(str, cands))} and the exact decimal difference at scale {scale}"
                    break
            if bad:
                emit({"v": "viol", "b": bb, "mech": f"float64-input-not-stored-as-its-decimal-text/{tag}", "what": f"{setting}: {bad}", "case": case})
            else:
                emit({"v": "held", "b": bb})
    # (3) values using all integer digits fit; one digit more is rejected with a VTL input error
    intd = width - scale
    if 1 <= intd <= 18:
        fits = "9" * intd + ".5"
        status, res = run_rows([fits], "DS_r <- DS_1;")
        bb = b + "/max-integer-digits"
        if status == "exc":
            name, code, _ = eng.exc_info(res)
            emit({"v": "viol", "b": bb, "mech": f"fitting-value-rejected/{name}/{tag}", "what": f"{setting}: {fits} has {intd} integer digits (precision {width}, scale {scale}) but was rejected: {name} {str(res)[:120]}", "case": case})
        else:
            v = eng.rows_of(res["DS_r"].data, ["Me_1"])[0][0]
            if v is None or abs(v - float(fits)) > max(1e-9 * float(fits), tol):
                emit({"v": "viol", "b": bb, "mech": f"fitting-value-altered/{tag}", "what": f"{setting}: {fits} returned as {v!r}", "case": case})
            else:
                emit({"v": "held", "b": bb})
        over = "1" + "0" * intd + ".5"
        status, res = run_rows([over], "DS_r <- DS_1;")
        bb = b + "/beyond-precision"
        if status == "ok":
            v = eng.rows_of(res["DS_r"].data, ["Me_1"])[0][0]
            emit({"v": "viol", "b": bb, "mech": f"non-fitting-value-accepted/{tag}", "what": f"{setting}: {over} needs {intd + 1} integer digits (precision {width}, scale {scale}) but was accepted as {v!r}", "case": case})
        else:
            name, code, isvtl = eng.exc_info(res)
            if name not in ("DataLoadError", "InputValidationException"):
                emit({"v": "viol", "b": bb, "mech": f"non-fitting-value-wrong-error/{name}/{tag}", "what": f"{setting}: {over} rejected with {name} {code}: {str(res)[:140]} instead of a VTL input error", "case": case})
            else:
                emit({"v": "held", "b": bb})


def apply_env(setting):
    for var in (SCALE_VAR, WIDTH_VAR):
        v = setting.get(var)
        if v is None:
            os.environ.pop(var, None)
        else:
            os.environ[var] = str(v)


def settings_for(shard, nshards, tier, rng):
    allv = list(range(-5, 46))
    singles = [{SCALE_VAR: v} for v in allv] + [{WIDTH_VAR: v} for v in allv]
    grid = [{SCALE_VAR: rng.choice(allv), WIDTH_VAR: rng.choice(allv)} for _ in range(40 if tier == "quick" else 600)]
    mine = [s for i, s in enumerate(singles + grid) if i % nshards == shard]
    return mine


def run_shard(spec, emit):
    import json
    import subprocess
    import sys
    from vf import eng
    ranges = doc_ranges()
    if not ranges:
        emit({"v": "inc", "why": "documented ranges not found in docs/environment_variables.rst"})
        return
    emit({"v": "info", "k": "documented_ranges", "val": ranges})
    rng = random.Random(f"C30-{spec['seed']}-{spec['shard']}")
    work = os.path.join(eng.SCRATCH, "c30")
    os.makedirs(work, exist_ok=True)

    def write_csv(cells):
        p = os.path.join(work, "DS_1.csv")
        with open(p, "w") as f:
            f.write("Id_1,Me_1\n" + "".join(f"{i + 1},{c}\n" for i, c in enumerate(cells)))
        return p
    mine = settings_for(spec["shard"], spec["nshards"], spec["tier"], rng)
    if spec.get("fresh_setting") is not None:
        apply_env(spec["fresh_setting"])
        one_setting(spec["fresh_setting"], ranges, emit, "fresh-process", write_csv)
        return
    rng.shuffle(mine)
    for i, s in enumerate(mine):
        apply_env(s)
        one_setting(s, ranges, emit, "in-process", write_csv)
        if i % 2 == 0:
            # the same setting again, unchanged: a setting's verdict must not depend on having been seen before
            one_setting(s, ranges, emit, "in-process-repeated", write_csv)
        if i % 3 == 2:
            apply_env({})
            one_setting({}, ranges, emit, "in-process-after-unset", write_csv)
    apply_env({})
    # fresh processes: a sample of the settings of this shard
    fresh = mine[:(4 if spec["tier"] == "quick" else 14)]
    for s in fresh:
        sp = os.path.join(work, "fresh.json")
        outp = os.path.join(work, "fresh.jsonl")
        if os.path.exists(outp):
            os.unlink(outp)
        with open(sp, "w") as f:
            json.dump(dict(spec, fresh_setting=s), f)
        try:
            subprocess.run([sys.executable, "-m", "vf.worker", "C30", sp, outp], timeout=300, env=dict(os.environ), cwd=work,
                           stdout=subprocess.DEVNULL, stderr=subprocess.DEVNULL)
        except subprocess.TimeoutExpired:
            emit({"v": "inc", "why": "fresh process watchdog"})
            continue
        if os.path.exists(outp):
            for line in open(outp):
                r = json.loads(line)
                if r.get("v") in ("held", "viol", "inc"):
                    emit(r)


def replay(case, emit):
    from vf import eng
    ranges = doc_ranges()
    work = os.path.join(eng.SCRATCH, "c30")
    os.makedirs(work, exist_ok=True)

    def write_csv(cells):
        p = os.path.join(work, "DS_1.csv")
        with open(p, "w") as f:
            f.write("Id_1,Me_1\n" + "".join(f"{i + 1},{c}\n" for i, c in enumerate(cells)))
        return p
    apply_env(case["setting"])
    one_setting(case["setting"], ranges, emit, case.get("mode", "in-process"), write_csv)
