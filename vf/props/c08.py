"""C08 — time operators follow the real calendar.
Runtime monitor with a calendar model built on datetime (ISO weeks, leap years): scalar time functions evaluated on
every date / period of a range inside calc, timeshift over whole period ranges (values, round trip, injectivity), and
the time-series operators on generated series with gaps."""
import datetime
import random

ID = "C08"
LEVEL = "exploration"
RULE = ("(a) getyear getmonth dayofmonth dayofyear datediff dateadd on every day, and getyear / period_indicator / time_agg to "
        "every coarser indicator on every period of every indicator, for 1900-2100 (quick: 14 sample years for the daily ones) "
        "as rows of large datasets inside calc; (b) timeshift(DS, n) for n in -60..60 (quick: 14 values) on datasets holding every "
        "period of one indicator over a span of years incl. 53-week and leap years: shifted period = calendar successor^n, "
        "shift by n then by -n is the identity, distinct inputs give distinct outputs; (c) fill_time_series (single/all), "
        "flow_to_stock, stock_to_flow on generated monthly/quarterly/annual series with gaps and two groups. "
        "Bucket = (operator, indicator or unit, leap-year / 53-week-year / year-boundary crossing, shift sign); one evaluation "
        "= one (operator, dataset) comparison.")
ASSUMPTIONS = ["time_agg is checked towards coarser indicators only, weeks are not aggregated (ISO year vs calendar year is not fixed by the property)",
               "datediff is checked for its absolute value"]
FLOORS = {"quick": (150, 60), "thorough": (600, 120)}
NSH = 16


def shards(tier, seed):
    return [{"shard": i, "nshards": NSH} for i in range(NSH)]


def weeks_in(y):
    return datetime.date(y, 12, 28).isocalendar()[1]


def days_in(y):
    return 366 if (y % 4 == 0 and (y % 100 != 0 or y % 400 == 0)) else 365


def n_in(ind, y):
    return {"A": 1, "S": 2, "Q": 4, "M": 12, "W": weeks_in(y), "D": days_in(y)}[ind]


def all_periods(ind, y0, y1):
    return [(y, k) for y in range(y0, y1 + 1) for k in range(1, n_in(ind, y) + 1)]


def tp(ind, y, k):
    return f"{y}" if ind == "A" else f"{y}{ind}{k}"


def month_of(ind, y, k):
    if ind == "M":
        return k
    if ind == "D":
        return (datetime.date(y, 1, 1) + datetime.timedelta(days=k - 1)).month
    return None


def coarser(ind, y, k, to):
    """period of indicator `to` containing (ind, y, k)"""
    if ind == "D":
        m = month_of("D", y, k)
    elif ind == "M":
        m = k
    elif ind == "Q":
        m = (k - 1) * 3 + 1
    elif ind == "S":
        m = (k - 1) * 6 + 1
    else:
        m = 1
    return {"A": (y, 1), "S": (y, (m - 1) // 6 + 1), "Q": (y, (m - 1) // 3 + 1), "M": (y, m)}[to]


ORDER = "DMQSA"


def emit_cmp(emit, bucket, mech, script, got, want, keys_label, case):
    bad = [(k, g, w) for k, g, w in zip(keys_label, got, want) if g != w]
    if bad:
        emit({"v": "viol", "b": bucket, "mech": mech, "what": f"{script}: {len(bad)} of {len(want)} wrong, e.g. {bad[0][0]} -> {bad[0][1]!r}, calendar says {bad[0][2]!r}", "case": case})
    else:
        emit({"v": "held", "b": bucket, "sample": {"script": script, "rows": len(want), "example": [keys_label[0], want[0]] if want else None}})


def scalar_part(emit, tier, shard, nshards):
    from vf import eng
    years = list(range(1900, 2101))
    sample = [1900, 1904, 1996, 1999, 2000, 2001, 2004, 2015, 2020, 2021, 2024, 2026, 2099, 2100]
    dyears = years if tier == "thorough" else sample
    jobs = []
    # ---- Date functions --------------------------------------------------------------------
    days = [datetime.date(y, 1, 1) + datetime.timedelta(days=i) for y in dyears for i in range(days_in(y))]
    for fn, f in (("getyear", lambda d: d.year), ("getmonth", lambda d: d.month), ("dayofmonth", lambda d: d.day), ("dayofyear", lambda d: d.timetuple().tm_yday)):
        jobs.append(("date", fn, f"DS_r <- DS_1[calc Me_2 := {fn}(Me_1)];", days, f))
    ref = datetime.date(2000, 2, 29)
    jobs.append(("date", "datediff", 'DS_r <- DS_1[calc Me_2 := datediff(Me_1, cast("2000-02-29", date))];', days, lambda d: abs((ref - d).days)))
    for n, unit in ((1, "D"), (-1, "D"), (366, "D"), (7, "W"), (1, "M"), (-13, "M"), (1, "A"), (4, "A")):
        def add(d, n=n, unit=unit):
            if unit == "D":
                return (d + datetime.timedelta(days=n)).isoformat()
            if unit == "W":
                return (d + datetime.timedelta(weeks=n)).isoformat()
            if d.day > 28:
                return None                       # end-of-month clamping is not fixed by the property
            mm = d.month - 1 + (n if unit == "M" else 12 * n)
            return datetime.date(d.year + mm // 12, mm % 12 + 1, d.day).isoformat()
        jobs.append(("date", f"dateadd:{n}{unit}", f'DS_r <- DS_1[calc Me_2 := dateadd(Me_1, {n}, "{unit}")];', days, add))
    # ---- Time_Period functions -------------------------------------------------------------------
    for ind in "ASQMWD":
        ps = all_periods(ind, 1900, 2100) if ind != "D" else [(y, k) for y in dyears for k in range(1, days_in(y) + 1)]
        jobs.append((f"tp:{ind}", "getyear", "DS_r <- DS_1[calc Me_2 := getyear(Me_1)];", [(ind,) + p for p in ps], lambda p: p[1]))
        jobs.append((f"tp:{ind}", "period_indicator", "DS_r <- DS_1[calc Me_2 := period_indicator(Me_1)];", [(ind,) + p for p in ps], lambda p: p[0]))
        if ind in "ASQMD":
            # day functions on a period refer to the period's last day (convention observed on the pinned tree); the calendar
            # (month lengths, leap years incl. the century rule) then fixes every value
            def end_date(p):
                import calendar
                i, y, k = p
                if i == "D":
                    return datetime.date(y, 1, 1) + datetime.timedelta(days=k - 1)
                m = {"A": 12, "S": 6 * k, "Q": 3 * k, "M": k}[i]
                return datetime.date(y, m, calendar.monthrange(y, m)[1])
            jobs.append((f"tp:{ind}", "dayofyear", "DS_r <- DS_1[calc Me_2 := dayofyear(Me_1)];", [(ind,) + p for p in ps], lambda p: end_date(p).timetuple().tm_yday))
            jobs.append((f"tp:{ind}", "dayofmonth", "DS_r <- DS_1[calc Me_2 := dayofmonth(Me_1)];", [(ind,) + p for p in ps], lambda p: end_date(p).day))
        if ind == "D":
            # a day belongs to the ISO week (and ISO year) of its date
            jobs.append((f"tp:{ind}", "time_agg:W", 'DS_r <- DS_1[calc Me_2 := time_agg("W", Me_1)];', [(ind,) + p for p in ps],
                         lambda p: "{}W{}".format(*(datetime.date(p[1], 1, 1) + datetime.timedelta(days=p[2] - 1)).isocalendar()[:2])))
        if ind in "DMQS":
            for to in ORDER[ORDER.index(ind) + 1:]:
                jobs.append((f"tp:{ind}", f"time_agg:{to}", f'DS_r <- DS_1[calc Me_2 := time_agg("{to}", Me_1)];', [(ind,) + p for p in ps],
                             lambda p, to=to: tp(to, *coarser(p[0], p[1], p[2], to))))
    for i, (kind, fn, script, items, f) in enumerate(jobs):
        if i % nshards != shard:
            continue
        if kind == "date":
            comps = [("Id_1", "Integer", "Identifier", False), ("Me_1", "Date", "Measure", True)]
            texts = [d.isoformat() for d in items]
            label = texts
        else:
            comps = [("Id_1", "Integer", "Identifier", False), ("Me_1", "Time_Period", "Measure", True)]
            texts = [tp(*p) for p in items]
            label = texts
        want = [f(x) for x in items]
        keep = [j for j, w in enumerate(want) if w is not None]
        st = eng.structures(eng.mkds("DS_1", comps))
        s, r = eng.call(eng.run, script, st, {"DS_1": eng.mkdf(["Id_1", "Me_1"], [(j, texts[j]) for j in keep])})
        b = f"scalar/{fn}/{kind}"
        case = {"part": "scalar", "fn": fn, "kind": kind, "script": script}
        if s == "exc":
            emit({"v": "viol", "b": b, "mech": f"scalar/{fn}/{kind}/raises-{type(r).__name__}", "what": f"{script} on {len(keep)} {kind} values raised {type(r).__name__}: {str(r)[:160]}", "case": case})
            continue
        got = dict(zip(r["DS_r"].data["Id_1"].tolist(), [eng.norm(v) for v in r["DS_r"].data["Me_2"].tolist()]))
        g = [got.get(j) for j in keep]
        w = [want[j] for j in keep]
        if fn == "datediff":
            g = [abs(x) if x is not None else None for x in g]
        g = [x[:10] if isinstance(x, str) and fn.startswith("dateadd") else x for x in g]
        emit_cmp(emit, b, f"scalar/{fn}/{kind}/wrong-calendar-value", script, g, w, [label[j] for j in keep], case)


def shift_part(emit, tier, shard, nshards, rng):
    from vf import eng
    spans = {"A": (1990, 2030), "S": (2010, 2024), "Q": (2012, 2024), "M": (2016, 2024), "W": (2014, 2022), "D": (2019, 2021)}
    ns = list(range(-60, 61)) if tier == "thorough" else [-60, -53, -13, -5, -2, -1, 1, 2, 4, 12, 13, 52, 53, 60]
    jobs = [(ind, n) for ind in "ASQMWD" for n in ns if n != 0]
    for i, (ind, n) in enumerate(jobs):
        if i % nshards != shard:
            continue
        y0, y1 = spans[ind]
        ps = all_periods(ind, y0, y1)
        pad = all_periods(ind, y0 - 70 if ind in "AS" else y0 - 20, y1 + 70 if ind in "AS" else y1 + 20)
        idx = {p: j for j, p in enumerate(pad)}
        comps = [("Id_1", "Time_Period", "Identifier", False), ("Me_1", "Integer", "Measure", True)]
        st = eng.structures(eng.mkds("DS_1", comps))
        rows = [(tp(ind, *p), j) for j, p in enumerate(ps)]
        want = {j: tp(ind, *pad[idx[p] + n]) for j, p in enumerate(ps)}
        special = "53-week-years" if ind == "W" else ("leap-years" if ind == "D" else "regular")
        b = f"timeshift/{ind}/{'+' if n > 0 else '-'}{min(abs(n), 99)}/{special}"
        case = {"part": "timeshift", "ind": ind, "n": n}
        script = f"DS_r <- timeshift(DS_1, {n});"
        s, r = eng.call(eng.run, script, st, {"DS_1": eng.mkdf(["Id_1", "Me_1"], rows)})
        if s == "exc":
            emit({"v": "viol", "b": b, "mech": f"timeshift/{ind}/raises-{type(r).__name__}", "what": f"{script} on all {ind} periods {y0}-{y1}: {type(r).__name__}: {str(r)[:160]}", "case": case})
            continue
        got = dict(zip(r["DS_r"].data["Me_1"].tolist(), r["DS_r"].data["Id_1"].tolist()))
        bad = [(rows[j][0], got.get(j), want[j]) for j in range(len(ps)) if got.get(j) != want[j]]
        dup = len(set(r["DS_r"].data["Id_1"].tolist())) != len(r["DS_r"].data)
        if bad or dup or len(r["DS_r"].data) != len(ps):
            what = []
            if bad:
                what.append(f"{len(bad)} of {len(ps)} periods shifted wrongly, e.g. {bad[0][0]} -> {bad[0][1]}, calendar says {bad[0][2]}")
            if dup:
                what.append("two datapoints of the result share one identifier")
            emit({"v": "viol", "b": b, "mech": f"timeshift/{ind}/{'duplicate-identifiers' if dup else 'wrong-period'}/{'crossing-53-week-or-leap-year' if ind in 'WD' else 'regular'}",
                  "what": f"{script} on all {ind} periods {y0}-{y1}: " + "; ".join(what), "case": case})
        else:
            emit({"v": "held", "b": b, "sample": {"script": script, "periods": len(ps), "example": [rows[0][0], want[0]]}})
        # round trip
        script2 = f"DS_r <- timeshift(timeshift(DS_1, {n}), {-n});"
        s, r = eng.call(eng.run, script2, st, {"DS_1": eng.mkdf(["Id_1", "Me_1"], rows)})
        b2 = f"timeshift-roundtrip/{ind}/{'+' if n > 0 else '-'}"
        if s == "exc":
            emit({"v": "viol", "b": b2, "mech": f"timeshift-roundtrip/{ind}/raises-{type(r).__name__}", "what": f"{script2}: {type(r).__name__}: {str(r)[:140]}", "case": case})
            continue
        got = dict(zip(r["DS_r"].data["Me_1"].tolist(), r["DS_r"].data["Id_1"].tolist()))
        bad = [(rows[j][0], got.get(j)) for j in range(len(ps)) if got.get(j) != rows[j][0]]
        if bad:
            emit({"v": "viol", "b": b2, "mech": f"timeshift-roundtrip/{ind}/not-identity", "what": f"{script2}: {len(bad)} of {len(ps)} periods do not come back, e.g. {bad[0][0]} -> {bad[0][1]}", "case": case})
        else:
            emit({"v": "held", "b": b2})


def date_shift_part(emit, tier, shard, nshards):
    """timeshift on Date identifiers (the frequency is inferred from the series): shifting by n and back is the identity and
    distinct dates stay distinct; month-end series (incl. end of February across leap years) are the delicate ones"""
    import calendar
    from vf import eng

    def month_ends(y0, y1, step):
        out = []
        for y in range(y0, y1 + 1):
            for m in range(1, 13, step):
                mm = m + step - 1
                out.append(datetime.date(y, mm, calendar.monthrange(y, mm)[1]))
        return out
    series = {
        "annual-end-of-february": [datetime.date(y, 2, calendar.monthrange(y, 2)[1]) for y in range(2015, 2026)],
        "annual-31-december": [datetime.date(y, 12, 31) for y in range(2015, 2026)],
        "annual-15-june": [datetime.date(y, 6, 15) for y in range(2015, 2026)],
        "monthly-month-end": month_ends(2019, 2021, 1), "quarterly-quarter-end": month_ends(2019, 2022, 3), "semester-end": month_ends(2018, 2023, 6),
        "monthly-15th": [datetime.date(y, m, 15) for y in (2019, 2020, 2021) for m in range(1, 13)],
        "daily-around-leap-day": [datetime.date(2020, 2, 20) + datetime.timedelta(days=k) for k in range(20)],
    }
    comps = [("Id_1", "Date", "Identifier", False), ("Me_1", "Integer", "Measure", True)]
    st = eng.structures(eng.mkds("DS_1", comps))
    jobs = [(name, n) for name in series for n in ([1, 2, 3, -1, 5] if tier == "quick" else [1, 2, 3, 4, 5, 7, 12, -1, -2, -3, -5, -13])]
    for i, (name, n) in enumerate(jobs):
        if i % nshards != shard:
            continue
        ds = series[name]
        rows = [(d.isoformat(), j) for j, d in enumerate(ds)]
        b = f"timeshift-date/{name}/{'+' if n > 0 else '-'}"
        case = {"part": "timeshift-date", "series": name, "n": n}
        script = f"DS_r <- timeshift(timeshift(DS_1, {n}), {-n});"
        s, r = eng.call(eng.run, script, st, {"DS_1": eng.mkdf(["Id_1", "Me_1"], rows)})
        s1, r1 = eng.call(eng.run, f"DS_r <- timeshift(DS_1, {n});", st, {"DS_1": eng.mkdf(["Id_1", "Me_1"], rows)})
        if s == "exc" or s1 == "exc":
            e = r if s == "exc" else r1
            emit({"v": "skip", "why": f"timeshift on a Date series rejected: {type(e).__name__}"})
            continue
        got = dict(zip(r["DS_r"].data["Me_1"].tolist(), [str(x)[:10] for x in r["DS_r"].data["Id_1"].tolist()]))
        bad = [(rows[j][0], got.get(j)) for j in range(len(ds)) if got.get(j) != rows[j][0]]
        dup = len(set(map(str, r1["DS_r"].data["Id_1"].tolist()))) != len(ds)
        if bad or dup:
            emit({"v": "viol", "b": b, "mech": f"timeshift-date/{'collapses-distinct-dates' if dup else 'roundtrip-not-identity'}/{name}",
                  "what": f"{script} on the {name} series: " + (f"{len(bad)} of {len(ds)} dates do not come back, e.g. {bad[0][0]} -> {bad[0][1]}" if bad else "two dates are shifted onto the same date"), "case": case})
        else:
            emit({"v": "held", "b": b, "sample": {"script": script, "series": name, "dates": len(ds)}})


def series_part(emit, tier, shard, nshards, rng):
    from vf import eng
    comps = [("Id_1", "String", "Identifier", False), ("Id_t", "Time_Period", "Identifier", False), ("Me_1", "Number", "Measure", True)]
    st = eng.structures(eng.mkds("DS_1", comps))
    for it in range(3 if tier == "quick" else 25):
        ind = rng.choice("AQM")
        y0 = rng.choice([2018, 2019, 2023])
        ps = all_periods(ind, y0, y0 + (6 if ind == "A" else 2))
        series = {}
        for g in ("a", "b"):
            lo = rng.randrange(0, len(ps) // 2)
            hi = rng.randrange(len(ps) // 2, len(ps))
            chosen = [p for p in ps[lo:hi + 1] if rng.random() < 0.7] or [ps[lo]]
            if ps[lo] not in chosen:
                chosen.insert(0, ps[lo])
            if ps[hi] not in chosen:
                chosen.append(ps[hi])
            series[g] = {p: float(rng.choice([1, 2, 3, 5, 10, -4])) for p in chosen}
        rows = [(g, tp(ind, *p), v) for g, s_ in series.items() for p, v in s_.items()]
        rng.shuffle(rows)
        jobs = []
        exp = []
        for g, s_ in series.items():
            acc = 0.0
            for p in sorted(s_):
                acc += s_[p]
                exp.append((g, tp(ind, *p), acc))
        jobs.append(("flow_to_stock", "DS_r <- flow_to_stock(DS_1);", exp))
        exp = []
        for g, s_ in series.items():
            prev = None
            for p in sorted(s_):
                exp.append((g, tp(ind, *p), s_[p] if prev is None else s_[p] - prev))
                prev = s_[p]
        jobs.append(("stock_to_flow", "DS_r <- stock_to_flow(DS_1);", exp))
        for mode in ("single", "all"):
            exp = []
            allp = sorted(p for s_ in series.values() for p in s_)
            for g, s_ in series.items():
                lo, hi = (min(s_), max(s_)) if mode == "single" else (allp[0], allp[-1])
                for p in ps:
                    if lo <= p <= hi:
                        exp.append((g, tp(ind, *p), s_.get(p)))
            jobs.append((f"fill_time_series:{mode}", f"DS_r <- fill_time_series(DS_1, {mode});", exp))
        for j, (fn, script, exp) in enumerate(jobs):
            if (it * 7 + j) % nshards != shard:
                continue
            b = f"series/{fn}/{ind}"
            case = {"part": "series", "fn": fn, "rows": [list(r) for r in rows], "script": script}
            s, r = eng.call(eng.run, script, st, {"DS_1": eng.mkdf(["Id_1", "Id_t", "Me_1"], rows)})
            if s == "exc":
                emit({"v": "viol", "b": b, "mech": f"series/{fn}/raises-{type(r).__name__}", "what": f"{script}: {type(r).__name__}: {str(r)[:160]}", "case": case})
                continue
            got = eng.rows_of(r["DS_r"].data, ["Id_1", "Id_t", "Me_1"])
            if fn.startswith("fill_time_series"):
                # whether the filled frame ends at the last observed period or at the end of its year is not fixed by the
                # property: extra datapoints are tolerated when they are null and lie in the first/last observed year
                keys = {(a, b_) for a, b_, _ in exp}
                lo_y, hi_y = min(p[0] for s_ in series.values() for p in s_), max(p[0] for s_ in series.values() for p in s_)
                extra = [g_ for g_ in got if (g_[0], g_[1]) not in keys]
                if all(g_[2] is None and lo_y <= int(str(g_[1])[:4]) <= hi_y for g_ in extra):
                    got = [g_ for g_ in got if (g_[0], g_[1]) in keys]
            d = eng.same_rowset(got, exp, 2, 1e-9)
            if d:
                emit({"v": "viol", "b": b, "mech": f"series/{fn}/wrong-series/{ind}", "what": f"{script} on {sorted(rows)[:6]}...: {d}", "case": case})
            else:
                emit({"v": "held", "b": b, "sample": {"script": script, "rows_in": len(rows), "rows_out": len(exp)}})


def run_shard(spec, emit):
    from vf import eng  # noqa: F401
    rng = random.Random(f"C08-{spec['seed']}")
    scalar_part(emit, spec["tier"], spec["shard"], spec["nshards"])
    shift_part(emit, spec["tier"], spec["shard"], spec["nshards"], rng)
    date_shift_part(emit, spec["tier"], spec["shard"], spec["nshards"])
    series_part(emit, spec["tier"], spec["shard"], spec["nshards"], rng)


def replay(case, emit):
    emit({"v": "inc", "why": "C08 cases are enumerations: re-run the check; point: " + str(case)[:200]})
