"""C12 — results do not depend on the textual order of statements.
Metamorphic monitor: statements are cut out of the source text by the harness-side parse (no engine pretty-printer),
permuted, and run()/semantic_analysis() of every permutation is compared with the original order."""
import itertools
import random

ID = "C12"
LEVEL = "exploration"
RULE = ("multi-statement corpus scripts and generated dependency graphs (2-6 statements over shared-structure inputs, "
        "defines mixed in); all permutations up to 4 statements (quick) / 5 (thorough, 6 sampled), random ones beyond; "
        "oracle: run() results equal as sets of datapoints and semantic_analysis() structures equal to the original order; "
        "generated cyclic graphs must raise SemanticError 1-3-2-3 and duplicated assignments 1-2-2 in every order. "
        "Bucket = (source, statement count, dependency shape class, outcome class); a permutation identical to the original "
        "order is not counted.")
ASSUMPTIONS = ["statement boundaries come from the parser stand-in's own parse of the script text"]
FLOORS = {"quick": (300, 15), "thorough": (6000, 40)}
NSH = 16

COMPS = [("Id_1", "Integer", "Identifier", False), ("Me_1", "Number", "Measure", True)]


def shards(tier, seed):
    return [{"shard": i, "nshards": NSH} for i in range(NSH)]


def perms_of(n, rng, tier):
    full = 4 if tier == "quick" else 5
    idx = list(range(n))
    if n <= full:
        ps = [p for p in itertools.permutations(idx) if list(p) != idx]
        if tier == "quick" and len(ps) > 8:
            rng.shuffle(ps)
            ps = ps[:8]
        return ps
    out = set()
    want = 4 if tier == "quick" else 30
    for _ in range(want * 3):
        p = idx[:]
        rng.shuffle(p)
        if p != idx:
            out.add(tuple(p))
        if len(out) >= want:
            break
    out.add(tuple(reversed(idx)))
    return sorted(out)


def sem_digest(sa):
    from vf import conform
    from vtlengine.Model import Dataset
    out = {}
    for k, v in sa.items():
        out[k] = conform.struct_of(v) if isinstance(v, Dataset) else ("scalar", v.data_type.__name__)
    return out


def outcome(fn, *a, **k):
    from vf import eng
    st, r = eng.call(fn, *a, **k)
    if st == "exc":
        n, code, _ = eng.exc_info(r)
        return ("exc", n, code), None
    return ("ok",), r


def compare_orders(stmts, run_kw, sem_kw, source, emit, rng, tier, case, expect_code=None, mech_tag=""):
    from vf import eng
    text0 = ";\n".join(stmts) + ";"
    o_run0, r0 = outcome(eng.run, script=text0, return_only_persistent=False, **run_kw)
    o_sem0, s0 = outcome(eng.semantic_analysis, script=text0, **sem_kw)
    if expect_code is None and o_run0[0] != "ok":
        emit({"v": "skip", "why": "original order rejected"})
        return
    if expect_code is not None and (o_sem0[0] != "exc" or o_sem0[2] != expect_code or o_run0 != o_sem0):
        emit({"v": "viol", "b": f"{source}/n={len(stmts)}/expect={expect_code}", "mech": f"expected-{expect_code}-not-raised",
              "what": f"{text0!r}: run -> {o_run0}, semantic_analysis -> {o_sem0}", "case": case})
        return
    d0 = eng.result_digest(r0) if r0 is not None else None
    sd0 = sem_digest(s0) if s0 is not None else None
    for p in perms_of(len(stmts), rng, tier):
        text = ";\n".join(stmts[i] for i in p) + ";"
        o_run, r = outcome(eng.run, script=text, return_only_persistent=False, **run_kw)
        o_sem, s = outcome(eng.semantic_analysis, script=text, **sem_kw)
        bucket = f"{source}/n={min(len(stmts), 7)}/{'error' if expect_code else 'ok'}"
        prob = None
        if o_run != o_run0:
            prob = ("run-outcome-depends-on-order", f"run: {o_run} vs original {o_run0}")
        elif o_sem != o_sem0:
            prob = ("semantic-outcome-depends-on-order", f"semantic_analysis: {o_sem} vs original {o_sem0}")
        elif r is not None:
            d = eng.digests_equal(eng.result_digest(r), d0)
            if d:
                prob = ("run-result-depends-on-order", d)
            elif sem_digest(s) != sd0:
                prob = ("semantic-structure-depends-on-order", "structures differ")
        if prob:
            emit({"v": "viol", "b": bucket, "mech": f"{source.split(':')[0]}/{mech_tag}{prob[0]}",
                  "what": f"order {list(p)} of {text0[:300]!r}: {prob[1]}", "case": dict(case, perm=list(p))})
        else:
            emit({"v": "held", "b": bucket, "sample": {"source": source, "perm": list(p), "statements": len(stmts),
                                                       "outcome": o_run0}})


def gen_case(rng):
    kind = rng.choices(["dag", "cycle", "dup"], [6, 2, 2])[0]
    n = rng.randint(2, 6)
    ni = rng.randint(1, 3)
    g = []
    for j in range(n):
        while True:
            rm = rng.randrange(1 << j) if j else 0
            im = rng.randrange(1 << ni)
            if rm or im:
                break
        g.append([rm, im])
    return {"kind": kind, "n": n, "ni": ni, "g": g, "pmask": rng.randrange(1 << n), "udo": rng.random() < 0.3,
            "x": rng.randrange(1 << 20)}


def build_gen(case):
    n, ni = case["n"], case["ni"]
    stmts = []
    for j, (rm, im) in enumerate(case["g"]):
        ops = [f"S{i + 1}" for i in range(j) if rm >> i & 1] + [f"IN_{i + 1}" for i in range(ni) if im >> i & 1]
        arrow = "<-" if case["pmask"] >> j & 1 else ":="
        body = " + ".join(ops)
        if case["udo"] and j == n - 1:
            # (a UDO call used directly as an operand of a binary operator is a known C32 finding; keep it standalone)
            stmts.append(f"S{j + 1} {arrow} addk({body} + {j + 1})")
        else:
            stmts.append(f"S{j + 1} {arrow} {body} + {j + 1}")
    if case["udo"]:
        stmts.insert(case["x"] % (len(stmts) + 1), "define operator addk (d dataset) returns dataset is d * 2 end operator")
    expect = None
    if case["kind"] == "cycle":
        a = case["x"] % n
        b = (a + 1 + case["x"] // 7 % max(1, n - 1)) % n
        if a == b:
            b = (a + 1) % n
        lo, hi = min(a, b), max(a, b)
        # make the earlier statement read the later one and the later (transitively) read the earlier
        off = 1 if case["udo"] and case["x"] % (len(stmts)) <= lo else 0
        off2 = 1 if case["udo"] and case["x"] % (len(stmts)) <= hi else 0
        stmts2 = [s for s in stmts]
        idx_lo = [i for i, s in enumerate(stmts2) if s.startswith(f"S{lo + 1} ")][0]
        idx_hi = [i for i, s in enumerate(stmts2) if s.startswith(f"S{hi + 1} ")][0]
        head_lo, body_lo = stmts2[idx_lo].split(" ", 2)[:2], stmts2[idx_lo].split(" ", 2)[2]
        stmts2[idx_lo] = f"{head_lo[0]} {head_lo[1]} S{hi + 1} + IN_1"
        head_hi = stmts2[idx_hi].split(" ", 2)[:2]
        stmts2[idx_hi] = f"{head_hi[0]} {head_hi[1]} S{lo + 1} + IN_1"
        stmts = stmts2
        expect = "1-3-2-3"
    elif case["kind"] == "dup":
        a = case["x"] % n
        src = [s for s in stmts if s.startswith(f"S{a + 1} ")][0]
        stmts.insert((case["x"] // 3) % (len(stmts) + 1), src.split(" ")[0] + " := IN_1 + 99")
        expect = "1-2-2"
    return stmts, expect


JCOMPS = [("Id_1", "Integer", "Identifier", False), ("Me_1", "Number", "Measure", True), ("Me_2", "Number", "Measure", True)]
JNAMES = ["d1", "d2", "DS_a", "DS_b", "DS_c", "DS_d"]


def gen_join_case(rng):
    """statements whose join aliases collide with each other and with dataset names produced elsewhere in the script"""
    n = rng.randint(2, 5)
    names = rng.sample(JNAMES, n)
    collide = rng.random() < 0.5
    stmts = []
    avail = ["IN_1", "IN_2"]
    for j, nm in enumerate(names):
        x, y = rng.choice(avail), rng.choice(avail)
        # aliases shared between joins; in half of the cases they may also equal a dataset name of the script
        a1, a2 = (rng.choice(["d1", "d2", "a"]), rng.choice(["d2", "b", "d1"])) if collide else (rng.choice(["a", "b"]), rng.choice(["b", "zz", "a"]))
        if a1 == a2:
            a2 = "zz"
        arrow = rng.choice(["<-", "<-", ":="])
        kind = rng.random()
        if kind < 0.55 and x != y:
            body = rng.choice([
                f"inner_join({x} as {a1}, {y} as {a2} keep {a1}#Me_1, {a2}#Me_2)",
                f"left_join({x} as {a1}, {y} as {a2} keep {a1}#Me_2, {a2}#Me_1)",
                f"inner_join({x} as {a1}, {y} as {a2} drop {a1}#Me_1, {a2}#Me_2)",
                f"inner_join({x} as {a1}, {y} as {a2} keep {a1}#Me_1, {a2}#Me_2 rename {a1}#Me_1 to Me_8, {a2}#Me_2 to Me_9)[rename Me_8 to Me_1, Me_9 to Me_2]",
                f"inner_join({x} as {a1}, {y} as {a2} calc Me_7 := {a1}#Me_1 + {a2}#Me_1 keep Me_7, {a1}#Me_2)[rename Me_7 to Me_1]",
            ])
        elif kind < 0.8:
            body = f"{x} * {j + 2}"
        else:
            body = f"{x}[calc Me_1 := Me_1 + {j + 1}]"
        stmts.append(f"{nm} {arrow} {body}")
        avail.append(nm)
    return {"kind": "joins", "stmts": stmts, "ni": 2}


HCOMPS = [("Id_1", "Integer", "Identifier", False), ("Id_2", "String", "Identifier", False), ("Me_1", "Number", "Measure", True)]


def gen_defs_case(rng):
    """definitions shared by several independent statements, scalars flowing into operator calls and clauses"""
    k = rng.choice([2, 3, 5])
    pool = [
        # one hierarchical ruleset with '=' and other rules, used by hierarchy and by check_hierarchy (independent statements)
        ["define hierarchical ruleset hr (variable rule Id_2) is A = B + C errorcode \"e1\"; A >= B errorcode \"e2\"; D <= A errorlevel 2 end hierarchical ruleset",
         "H <- hierarchy(IN_1, hr rule Id_2 non_null all)", "V <- check_hierarchy(IN_1, hr rule Id_2 partial_null all)", f"T <- IN_1 * {k}"],
        ["define hierarchical ruleset hr (variable rule Id_2) is A = B + C; B > C end hierarchical ruleset",
         "V1 <- check_hierarchy(IN_1, hr rule Id_2 always_zero all_measures)", "H1 := hierarchy(IN_1, hr rule Id_2 partial_zero computed)", "H2 <- H1 + 1",
         "V2 <- check_hierarchy(IN_1, hr rule Id_2 non_zero invalid)"],
        # one datapoint ruleset used twice
        ["define datapoint ruleset dpr (variable Me_1) is r1: Me_1 > 0 errorcode \"neg\"; r2: Me_1 < 100 end datapoint ruleset",
         "P <- check_datapoint(IN_1, dpr all)", "Q <- check_datapoint(IN_1[filter Id_1 > 1], dpr invalid)", f"R <- IN_1 + {k}"],
        # a computed scalar passed to a scalar-typed operator parameter, used in clauses and conditions
        [f"define operator scale (d dataset, f number) returns dataset is d * f end operator", f"sc := {k} + 0.5", "A <- scale(IN_1, sc)", "B <- scale(A, 2)", "C <- IN_1[calc Me_2 := Me_1 * sc]"],
        [f"lim := {k}", "F <- IN_1[filter Me_1 > lim]", "G <- if IN_1 > lim then IN_1 else IN_1 * lim", "N <- nvl(IN_1, lim)", "sel <- IN_1[sub Id_1 = lim]" if k in (2, 3) else "K <- IN_1[calc Me_3 := between(Me_1, 0, lim)]"],
        [f"define operator top (d dataset, n integer default 1) returns dataset is d[filter Id_1 <= n] end operator", f"nn := {min(k, 3)}", "T1 <- top(IN_1, nn)", "T2 <- top(IN_1)", "cnt <- count(T1)"],
    ]
    stmts = rng.choice(pool)
    return {"kind": "defs", "stmts": stmts, "ni": 1}


def run_gen(case, emit, rng, tier):
    from vf import eng
    if case["kind"] == "defs":
        st = eng.structures(eng.mkds("IN_1", HCOMPS))
        rows = [(i, c, float(v)) for i in (1, 2, 3) for c, v in zip("ABCD", (10 + i, 4, 6 + i % 2, 9))]
        dfs = {"IN_1": eng.mkdf(["Id_1", "Id_2", "Me_1"], rows)}
        compare_orders(case["stmts"], {"data_structures": st, "datapoints": dfs}, {"data_structures": st}, "gen:defs", emit, rng, tier, {"gen": case}, mech_tag="defs/")
        return
    if case["kind"] == "joins":
        st = eng.structures(*[eng.mkds(f"IN_{i + 1}", JCOMPS) for i in range(2)])
        dfs = {f"IN_{i + 1}": eng.mkdf(["Id_1", "Me_1", "Me_2"], [(k, float(i * 10 + k), float(100 * (i + 1) + k)) for k in (1, 2, 3)]) for i in range(2)}
        import re
        aliases = set(re.findall(r" as (\w+)", " ".join(case["stmts"])))
        names = {s_.split(" ")[0] for s_ in case["stmts"]} | {"IN_1", "IN_2"}
        tag = "join-alias-equals-a-dataset-name/" if aliases & names else "joins/"
        compare_orders(case["stmts"], {"data_structures": st, "datapoints": dfs}, {"data_structures": st}, "gen:joins", emit, rng, tier, {"gen": case}, mech_tag=tag)
        return
    stmts, expect = build_gen(case)
    ni = case["ni"]
    st = eng.structures(*[eng.mkds(f"IN_{i + 1}", COMPS) for i in range(ni)])
    dfs = {f"IN_{i + 1}": eng.mkdf(["Id_1", "Me_1"], [(k, float(i * 10 + k)) for k in (1, 2, 3)]) for i in range(ni)}

    class Fresh(dict):
        pass
    run_kw = {"data_structures": st, "datapoints": dfs}
    compare_orders(stmts, run_kw, {"data_structures": st}, f"gen:{case['kind']}", emit, rng, tier,
                   {"gen": case}, expect_code=expect)


def run_corpus(c, emit, rng, tier):
    from vf import corpus
    import vboot
    try:
        kw = corpus.run_kwargs(c)
    except Exception as e:  # noqa: BLE001
        emit({"v": "skip", "why": f"corpus load {type(e).__name__}"})
        return
    stmts = vboot.shim.split_statements(kw["script"])
    if not stmts or len(stmts) < 2:
        emit({"v": "skip", "why": "fewer than two statements"})
        return
    run_kw = {k: v for k, v in kw.items() if k != "script"}
    sem_kw = {k: v for k, v in run_kw.items() if k != "datapoints"}
    compare_orders(stmts, run_kw, sem_kw, f"corpus:{c['area'].split('/')[0]}", emit, rng, tier, {"corpus": c})


def run_shard(spec, emit):
    from vf import eng, rider
    rng = random.Random(f"C12-{spec['seed']}-{spec['shard']}")
    bud = eng.Budget(spec.get("budget_s", 100 if spec["tier"] == "quick" else 2400))
    ngen = 5 if spec["tier"] == "quick" else 60
    for _ in range(ngen):
        if not bud.ok():
            break
        run_gen(gen_case(rng), emit, rng, spec["tier"])
        for _ in range(3):
            run_gen(gen_join_case(rng), emit, rng, spec["tier"])
        run_gen(gen_defs_case(rng), emit, rng, spec["tier"])
    for c in rider.corpus_slice(spec, quick_fraction=6, tag="C12"):
        if not bud.ok():
            emit({"v": "inc", "why": "cut by wall-clock budget"})
            break
        run_corpus(c, emit, rng, spec["tier"])


def replay(case, emit):
    rng = random.Random(0)
    if "corpus" in case:
        run_corpus(case["corpus"], emit, rng, "thorough")
    else:
        run_gen(case["gen"], emit, rng, "thorough")
