"""C05 — set operators match datapoints by identifiers across all operands.
Differential monitor: run() on generated (possibly nested) set expressions vs. a by-key reference model written
from the property statement."""
import random

from vf import gen

ID = "C05"
LEVEL = "exploration"
RULE = ("generated union/intersect (2-4 operands) and setdiff/symdiff (2 operands), possibly nested in each other, over 2-4 "
        "datasets with the same components declared in different orders (identifiers of the same type included, "
        "identifier-only datasets included), the same dataset possibly used twice, partially overlapping identifier keys and "
        "conflicting measure values, DataFrame columns shuffled; run() result compared as a set of datapoints (by component "
        "name) with a by-key model (union: first operand having the key; intersect: keys in every operand, measures of the "
        "first; setdiff; symdiff: keys in exactly one operand). Bucket = (root operator, operand count, overlap pattern, "
        "conflicting measures, empty operand, nesting, declaration orders differ, identifier-only); trivial = no shared key "
        "and empty result.")
ASSUMPTIONS = ["measures of intersect are taken from the first operand (property: 'from the retained datapoint')"]
FLOORS = {"quick": (300, 40), "thorough": (5000, 80)}
N = {"quick": 45, "thorough": 1500}
NSH = 16


def shards(tier, seed):
    return [{"shard": i, "n": N[tier]} for i in range(NSH)]


def apply_op(op, maps):
    if op == "union":
        out = {}
        for m in maps:
            for k, r in m.items():
                out.setdefault(k, r)
        return out
    if op == "intersect":
        return {k: r for k, r in maps[0].items() if all(k in m for m in maps[1:])}
    if op == "setdiff":
        return {k: r for k, r in maps[0].items() if k not in maps[1]}
    if op == "symdiff":
        out = {k: r for k, r in maps[0].items() if k not in maps[1]}
        out.update({k: r for k, r in maps[1].items() if k not in maps[0]})
        return out
    raise ValueError(op)


def ev(tree, data):
    if isinstance(tree, str):
        return data[tree.split("~")[0]]
    return apply_op(tree[0], [ev(t, data) for t in tree[1]])


MEASURES = []      # measure names of the case being rendered (set by run_case)


def render(tree):
    if isinstance(tree, str):
        name, _, form = tree.partition("~")
        if form == "keepswap" and len(MEASURES) >= 2:
            return f"{name}[keep {', '.join(reversed(MEASURES))}]"      # same content, other physical column order
        if form == "calcsame" and MEASURES:
            return f"{name}[calc {MEASURES[0]} := {MEASURES[0]}]"
        if form == "filtertrue":
            return f"{name}[filter true]"
        return name
    return f"{tree[0]}({', '.join(render(t) for t in tree[1])})"


def depth(tree):
    return 0 if isinstance(tree, str) else 1 + max(depth(t) for t in tree[1])


def gen_tree(rng, names, d):
    op = rng.choice(["union", "union", "intersect", "intersect", "setdiff", "symdiff"])
    k = rng.randint(2, 4) if op in ("union", "intersect") else 2
    kids = []
    for _ in range(k):
        if d > 0 and rng.random() < 0.3:
            kids.append(gen_tree(rng, names, d - 1))
        else:
            leaf = rng.choice(names)
            if rng.random() < 0.2:
                leaf += "~" + rng.choice(["keepswap", "keepswap", "calcsame", "filtertrue"])     # operand is a clause result
            kids.append(leaf)
    return [op, kids]


def make_case(rng):
    idonly = rng.random() < 0.12
    same_type_ids = rng.random() < 0.4
    if same_type_ids:
        t = rng.choice(["Integer", "String"])
        comps = [("Id_1", t, "Identifier", False), ("Id_2", t, "Identifier", False)]
    else:
        comps = gen.rand_comps(rng, n_ids=(1, 2), n_meas=(0, 0))
    if not idonly:
        mt = rng.choice(["Integer", "Number", "String", "Boolean"])
        nm = rng.randint(1, 2)
        # measures of one type so that a positional mix-up of declaration orders stays type-compatible and silent
        comps = comps + [(f"Me_{i + 1}", mt if rng.random() < 0.7 else rng.choice(["Integer", "Number", "String"]), "Measure", True) for i in range(nm)]
    nds = rng.randint(2, 4)
    keys = gen.key_space(rng, comps, per_id=rng.choice([2, 3]))
    if same_type_ids:
        # make (a, b) and (b, a) both possible keys: crosswise comparisons are then observable
        pool = gen.ID_POOLS[comps[0][1]][:3]
        keys = [(a, b) for a in pool for b in pool]
    dss = []
    for i in range(nds):
        mode = rng.random()
        n = 0 if mode < 0.08 else (len(keys) if mode < 0.2 else None)
        dcomps = list(comps)
        if not idonly and rng.random() < 0.35:
            # Integer in one operand, Number in another: the result is Number and keeps every value exactly
            dcomps = [(c[0], rng.choice(["Integer", "Number"]), c[2], c[3]) if c[2] == "Measure" and c[1] in ("Integer", "Number") else c for c in comps]
        rows = gen.rand_rows(rng, dcomps, keys, n=n, null_p=0.15)
        order = list(range(len(comps)))
        if rng.random() < 0.5:
            rng.shuffle(order)
        dss.append({"name": f"DS_{i + 1}", "order": order, "rows": [list(r) for r in rows], "types": [c[1] for c in dcomps]})
    tree = gen_tree(rng, [d["name"] for d in dss], rng.choice([0, 0, 1, 2]))
    return {"comps": [list(c) for c in comps], "dss": dss, "tree": tree, "colseed": rng.randrange(1 << 30)}


def used(tree, acc=None):
    acc = [] if acc is None else acc
    if isinstance(tree, str):
        acc.append(tree.split("~")[0])
    else:
        for t in tree[1]:
            used(t, acc)
    return acc


def run_case(case, emit):
    from vf import eng
    comps = [tuple(c) for c in case["comps"]]
    names = [c[0] for c in comps]
    nid = sum(1 for c in comps if c[2] == "Identifier")
    rng = random.Random(case["colseed"])
    data, dss, dfs = {}, [], {}
    for d in case["dss"]:
        data[d["name"]] = {tuple(r[:nid]): tuple(r) for r in d["rows"]}
        dcomps = [(c[0], t, c[2], c[3]) for c, t in zip(comps, d.get("types") or [c[1] for c in comps])]
        dss.append(eng.mkds(d["name"], [dcomps[i] for i in d["order"]]))
        dfs[d["name"]] = gen.frame(dcomps, [tuple(r) for r in d["rows"]], rng, shuffle_cols=True)
    del MEASURES[:]
    MEASURES.extend(c[0] for c in comps if c[2] == "Measure")
    tree = case["tree"]
    script = f"DS_r <- {render(tree)};"
    expected = list(ev(tree, data).values())
    ops = used(tree)
    keysets = [set(data[n]) for n in ops]
    k = len(tree[1])
    anyshared = any(keysets[i] & keysets[j] for i in range(len(keysets)) for j in range(i + 1, len(keysets)))
    allkeys = set().union(*keysets)
    conflict = any(len({data[n][kk][nid:] for n in set(ops) if kk in data[n]}) > 1 for kk in allkeys)
    orders_differ = len({tuple(d["order"]) for d in case["dss"] if d["name"] in ops}) > 1
    bucket = (f"{tree[0]}/{k}/shared={anyshared}/conflict={conflict}/empty={any(not ks for ks in keysets)}/depth={depth(tree)}/"
              f"orders_differ={orders_differ}/idonly={nid == len(comps)}/repeat={len(set(ops)) < len(ops)}")
    status, res = eng.call(eng.run, script, eng.structures(*dss), dfs)
    arity = "2" if k == 2 and depth(tree) == 1 else (">2" if depth(tree) == 1 else "nested")
    if status == "exc":
        name, code, isvtl = eng.exc_info(res)
        if name == "SemanticError":
            emit({"v": "skip", "why": f"generator_rejected {code}"})
            return
        rep = "/same-subexpression-twice" if _has_twin(tree) else ""
        emit({"v": "viol", "b": bucket, "mech": f"{tree[0]}/{arity}/raises:{name}:{code}{rep}", "what": f"{script} raised {name}: {str(res)[:200]}", "case": case})
        return
    ds = res["DS_r"]
    if sorted(ds.components) != sorted(names):
        emit({"v": "viol", "b": bucket, "mech": f"{tree[0]}/{arity}/result-components", "what": f"{script}: components {list(ds.components)} expected {names}", "case": case})
        return
    got = eng.rows_of(ds.data, names)
    diff = eng.same_rowset(got, expected, nid)
    if diff is None:
        rec = {"v": "held", "b": bucket if (anyshared or expected) else "trivial"}
        if anyshared or expected:
            rec["sample"] = {"script": script, "declared_orders": [d["order"] for d in case["dss"]], "result_rows": len(got)}
        emit(rec)
    else:
        rep = "/same-subexpression-twice" if _has_twin(tree) else ""
        emit({"v": "viol", "b": bucket, "mech": f"{tree[0]}/{arity}/wrong-datapoints/orders_differ={orders_differ}{rep}", "what": f"{script}: {diff}", "case": case})


def _has_twin(tree):
    """some operator node has two identical non-leaf operands (e.g. symdiff(intersect(A,B,C), intersect(A,B,C)))"""
    if isinstance(tree, str):
        return False
    kids = [repr(t) for t in tree[1] if not isinstance(t, str)]
    return len(kids) != len(set(kids)) or any(_has_twin(t) for t in tree[1])


def run_shard(spec, emit):
    from vf import eng
    rng = random.Random(f"C05-{spec['seed']}-{spec['shard']}")
    bud = eng.Budget(spec.get("budget_s", 100 if spec["tier"] == "quick" else 2400))
    for _ in range(spec["n"]):
        if not bud.ok():
            emit({"v": "inc", "why": "cut by wall-clock budget"})
            break
        run_case(make_case(rng), emit)


def replay(case, emit):
    run_case(case, emit)
