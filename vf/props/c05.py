"""C05 — set operators match datapoints by identifiers across all operands.
Differential monitor: run() on generated operands vs. a by-key reference model written from the
property statement."""
import random

from vf import gen

ID = "C05"
LEVEL = "exploration"
RULE = ("generated union/intersect (2-4 operands) and setdiff/symdiff (2 operands) over datasets sharing one "
        "structure with partially overlapping identifier keys and conflicting measure values, operand DataFrames "
        "with shuffled column order; run() result compared as a set of datapoints with a by-key model "
        "(union: first operand having the key; intersect: keys in every operand, measures of the first; setdiff; "
        "symdiff). Bucket = (operator, operand count, overlap pattern, conflicting measures, empty operand present, "
        "nesting); a case is non-trivial when at least two operands share a key or the expected result is non-empty.")
ASSUMPTIONS = ["measures of intersect are taken from the first operand (property: 'from the retained datapoint')"]
FLOORS = {"quick": (300, 20), "thorough": (5000, 30)}
N = {"quick": 60, "thorough": 1500}
SHARDS = {"quick": 16, "thorough": 16}


def shards(tier, seed):
    return [{"shard": i, "n": N[tier]} for i in range(SHARDS[tier])]


def model(op, operands, nid):
    maps = [{r[:nid]: r for r in rows} for rows in operands]
    if op == "union":
        out = {}
        for m in maps:
            for k, r in m.items():
                out.setdefault(k, r)
        return list(out.values())
    if op == "intersect":
        return [r for k, r in maps[0].items() if all(k in m for m in maps[1:])]
    if op == "setdiff":
        return [r for k, r in maps[0].items() if k not in maps[1]]
    if op == "symdiff":
        return [r for k, r in maps[0].items() if k not in maps[1]] + [r for k, r in maps[1].items() if k not in maps[0]]
    raise ValueError(op)


def make_case(rng):
    comps = gen.rand_comps(rng, n_ids=(1, 2), n_meas=(1, 2))
    op = rng.choice(["union", "union", "intersect", "intersect", "setdiff", "symdiff"])
    k = rng.randint(2, 4) if op in ("union", "intersect") else 2
    nested = False
    if op in ("union", "intersect") and k >= 3 and rng.random() < 0.25:
        nested = True
    keys = gen.key_space(rng, comps, per_id=rng.choice([2, 3, 4]))
    operands = []
    for i in range(k):
        mode = rng.random()
        if mode < 0.08:
            n = 0
        elif mode < 0.2:
            n = len(keys)
        else:
            n = None
        operands.append(gen.rand_rows(rng, comps, keys, n=n, null_p=0.15))
    return {"comps": [list(c) for c in comps], "op": op, "operands": [[list(r) for r in o] for o in operands],
            "nested": nested, "colseed": rng.randrange(1 << 30)}


def script_of(case):
    k = len(case["operands"])
    names = [f"DS_{i + 1}" for i in range(k)]
    op = case["op"]
    if case.get("nested") and k >= 3:
        # op(op(DS_1, DS_2), DS_3, ...) == op(DS_1, DS_2, DS_3, ...) for union and intersect by the by-key model
        inner = f"{op}({names[0]}, {names[1]})"
        return f"DS_r <- {op}({inner}, {', '.join(names[2:])});"
    return f"DS_r <- {op}({', '.join(names)});"


def run_case(case, emit):
    from vf import eng
    comps = [tuple(c) for c in case["comps"]]
    nid = sum(1 for c in comps if c[2] == "Identifier")
    operands = [[tuple(r) for r in o] for o in case["operands"]]
    k = len(operands)
    rng = random.Random(case["colseed"])
    st = eng.structures(*[eng.mkds(f"DS_{i + 1}", comps) for i in range(k)])
    dfs = {f"DS_{i + 1}": gen.frame(comps, operands[i], rng, shuffle_cols=True) for i in range(k)}
    script = script_of(case)
    expected = model(case["op"], operands, nid)
    keysets = [set(r[:nid] for r in o) for o in operands]
    shared = set.intersection(*keysets) if keysets else set()
    anyshared = any(keysets[i] & keysets[j] for i in range(k) for j in range(i + 1, k))
    conflict = any(
        len({tuple(map(repr, m[kk][nid:])) for m in [{r[:nid]: r for r in o} for o in operands] if kk in m}) > 1
        for kk in set().union(*keysets)) if keysets else False
    pattern = "all-shared" if shared and all(ks == keysets[0] for ks in keysets) else (
        "some-in-all" if shared else ("pairwise" if anyshared else "disjoint"))
    bucket = f"{case['op']}/{k}/{pattern}/conflict={conflict}/empty={any(not o for o in operands)}/nested={case.get('nested', False)}"
    status, res = eng.call(eng.run, script, st, dfs)
    if status == "exc":
        name, code, isvtl = eng.exc_info(res)
        emit({"v": "viol", "b": bucket, "mech": f"{case['op']}/raises:{name}:{code}",
              "what": f"{script} raised {name}: {str(res)[:200]}", "case": case})
        return
    cols, rows, nk = eng.ds_rows(res["DS_r"])
    want_cols = [c[0] for c in comps]
    if cols != want_cols and sorted(cols) == sorted(want_cols):
        idx = [want_cols.index(c) for c in cols]
        expected = [tuple(r[i] for i in idx) for r in expected]
    diff = eng.same_rowset(rows, expected, nk)
    if diff is None:
        rec = {"v": "held", "b": bucket}
        if anyshared or expected:
            rec["sample"] = {"script": script, "operand_keys": [sorted(map(str, ks)) for ks in keysets][:4],
                             "result_rows": len(rows)}
        else:
            rec["b"] = "trivial"
        emit(rec)
    else:
        mech = f"{case['op']}/arity={'2' if k == 2 else '>2'}/wrong-datapoints"
        emit({"v": "viol", "b": bucket, "mech": mech, "what": f"{script}: {diff}", "case": case})


def run_shard(spec, emit):
    rng = random.Random(f"C05-{spec['seed']}-{spec['shard']}")
    for _ in range(spec["n"]):
        run_case(make_case(rng), emit)


def replay(case, emit):
    run_case(case, emit)
