"""C07 — validation and hierarchy operators report exactly the failing datapoints.
Differential monitor: generated datapoint rulesets / hierarchical rulesets / check expressions are executed by the real
engine and compared with a model written from the VTL reference manual (rule outcome, output modes, errorcode /
errorlevel placement, imbalance = left - right, validation modes, input modes, rule ordering). Points the manual leaves
open are 'unspecified' in the model: such datapoints may be present or absent and never decide a verdict."""
import json
import random

ID = "C07"
LEVEL = "exploration"
RULE = ("four generated families: check_datapoint (1-5 rules, optional names / when-conditions / error codes and levels / "
        "aliases in the signature; invalid, all, all_measures), check (dataset-dataset and dataset-scalar comparison, optional "
        "imbalance / errorcode / errorlevel; invalid, all), check_hierarchy (1-5 rules over code items with +/- right sides, "
        "=, >, <, >=, <= ; six validation modes; invalid, all, all_measures) and hierarchy ('=' rules given in shuffled order; six "
        "modes; input rule / dataset / rule_priority; output computed / all). Oracle: per (identifiers, ruleid) the model's row "
        "(presence, bool_var, imbalance, errorcode, errorlevel, measure) or 'unspecified'. Bucket = (family, output, mode, "
        "features); one evaluation = one statement result compared; statements with an empty expected and actual result are trivial.")
ASSUMPTIONS = ["the model is written from the VTL 2.1 reference manual; where the manual is silent (null when-condition, "
               "non_zero with items cancelling to zero, 'always' modes for groups without any item, lower rule not produced "
               "under input mode rule) the datapoint is not compared"]
FLOORS = {"quick": (300, 30), "thorough": (6000, 60)}
NSH = 16
MODES = ["non_null", "non_zero", "partial_null", "partial_zero", "always_null", "always_zero"]
ANY = ("any",)


def shards(tier, seed):
    return [{"shard": i, "nshards": NSH, "n": 40 if tier == "quick" else 1500} for i in range(NSH)]


# ------------------------------------------------------------------------------------------------ generic comparison
def compare(ds, key_cols, expected, maybe, cols):
    """expected: {key: {col: value|ANY}}; maybe: set of keys that may be present or absent. Returns a problem or None."""
    from vf import eng
    missing = [c for c in key_cols + cols if c not in ds.components]
    if missing:
        return "structure", f"result lacks components {missing} (has {list(ds.components)})"
    rows = eng.rows_of(ds.data, key_cols + cols)
    got = {}
    for r in rows:
        k = tuple(eng.norm(v) for v in r[:len(key_cols)])
        if k in got:
            return "duplicate-datapoint", f"datapoint {k} returned twice"
        got[k] = dict(zip(cols, (eng.norm(v) for v in r[len(key_cols):])))
    for k in expected:
        if k not in got and k not in maybe:
            return "datapoint-missing", f"datapoint {k} expected {expected[k]} but absent (returned keys {sorted(got, key=repr)[:6]})"
    for k, vals in got.items():
        if k in maybe:
            continue
        if k not in expected:
            return "datapoint-unexpected", f"datapoint {k} = {vals} returned but the rule does not produce it"
        for c in cols:
            w = expected[k].get(c, ANY)
            if w is ANY:
                continue
            g = vals[c]
            ok = (g is None and w is None) or (g is not None and w is not None and (eng.close(g, w, 1e-9) if not isinstance(w, (str, bool)) and not isinstance(g, (str, bool)) else str(g) == str(w) if isinstance(w, str) or isinstance(g, str) else g == w))
            if not ok:
                return f"wrong-{c}", f"datapoint {k}: {c} = {g!r}, model says {w!r} (row {vals})"
    return None


def lit_code(v):
    if v is None:
        return None
    return f'"{v}"' if isinstance(v, str) else str(v)


# ------------------------------------------------------------------------------------------------ check_datapoint
DP_COMPS = [("Id_1", "Integer", "Identifier", False), ("Id_2", "String", "Identifier", False), ("Me_1", "Number", "Measure", True),
            ("Me_2", "Integer", "Measure", True), ("Me_3", "String", "Measure", True)]


def make_dp(rng):
    from vf import exprgen, model
    alias = {"Me_2": "X"} if rng.random() < 0.4 else {}
    operands = {alias.get(n, n): t for n, t, *_ in DP_COMPS if n != "Id_1"}
    rules = []
    named = rng.random() < 0.7
    lvl_kind = rng.choice(["int", "int", "str", "none"])
    for i in range(rng.randint(1, 5)):
        g = exprgen.Gen(rng, operands, allow_null_const=False, funcs=rng.random() < 0.5)
        then = g.boolean(rng.randint(1, 2))
        when = g.boolean(1) if rng.random() < 0.4 else None
        rules.append({"name": f"r{i + 1}" if named else None, "when": when, "then": then,
                      "ec": rng.choice([None, f"E{i}", "bad value", f"code-{i}"]),
                      "el": None if lvl_kind == "none" or rng.random() < 0.3 else (rng.randint(1, 5) if lvl_kind == "int" else rng.choice(["low", "high"]))})
    rows = []
    for i in (1, 2, 3):
        for s in ("a", "b", "hello"):
            if rng.random() < 0.8:
                rows.append([i, s, rng.choice([None, 0.0, 1.5, -0.75, 10.0, 2.25, 100.125]), rng.choice([None, 0, 1, 2, 5, -7, 10]), rng.choice([None, "a", "ab", "hello", "", "Zz"])])
    return {"fam": "dp", "alias": alias, "rules": rules, "rows": rows, "output": rng.choice(["invalid", "all", "all_measures", None])}


def _t(x):
    return tuple(_t(i) for i in x) if isinstance(x, list) else x


def dp_script(case):
    from vf import model
    sig = ", ".join(f"{n} as {case['alias'][n]}" if n in case["alias"] else n for n in ("Id_2", "Me_1", "Me_2", "Me_3"))
    parts = []
    for r in case["rules"]:
        s = (f"{r['name']}: " if r["name"] else "")
        if r["when"] is not None:
            s += f"when {model.vtl(_t(r['when']))} then "
        s += model.vtl(_t(r["then"]))
        if r["ec"] is not None:
            s += f" errorcode {lit_code(r['ec'])}"
        if r["el"] is not None:
            s += f" errorlevel {lit_code(r['el'])}"
        parts.append(s)
    out = f" {case['output']}" if case["output"] else ""
    return (f"define datapoint ruleset dpr (variable {sig}) is {'; '.join(parts)} end datapoint ruleset; "
            f"DS_r <- check_datapoint(DS_1, dpr{out});")


def run_dp(case, emit):
    from vf import eng, model
    script = dp_script(case)
    output = case["output"] or "invalid"
    expected, maybe = {}, set()
    feats = set()
    for row in case["rows"]:
        env = {case["alias"].get(n, n): model.num_in(v) for (n, *_), v in zip(DP_COMPS, row)}
        for i, r in enumerate(case["rules"]):
            rid = r["name"] or str(i + 1)
            key = (row[0], row[1], rid)
            then = model.ev(_t(r["then"]), env)
            cond = True if r["when"] is None else model.ev(_t(r["when"]), env)
            if then is model.ERR or cond is model.ERR:
                emit({"v": "skip", "why": "rule raises a run-time error in the model"})
                return
            if cond is model.UNSPEC or cond is None or (cond is True and then is model.UNSPEC):
                maybe.add(key)
                continue
            outcome = then if cond is True else True
            if r["when"] is not None:
                feats.add("when")
            if outcome is None:
                feats.add("null-outcome")
            if output == "invalid" and outcome is not False:
                continue
            vals = {"errorcode": r["ec"] if outcome is False else None, "errorlevel": r["el"] if outcome is False else None}
            if output != "invalid":
                vals["bool_var"] = outcome
            if output != "all":
                vals.update({"Me_1": row[2], "Me_2": row[3], "Me_3": row[4]})
            expected[key] = vals
    cols = ["errorcode", "errorlevel"] + (["bool_var"] if output != "invalid" else []) + (["Me_1", "Me_2", "Me_3"] if output != "all" else [])
    bucket = f"check_datapoint/{output}{'/default' if case['output'] is None else ''}/rules={min(len(case['rules']), 3)}/{'+'.join(sorted(feats)) or 'plain'}/named={case['rules'][0]['name'] is not None}"
    _execute(case, script, {"DS_1": (DP_COMPS, case["rows"])}, ["Id_1", "Id_2", "ruleid"], expected, maybe, cols, bucket, emit)


def _execute(case, script, inputs, key_cols, expected, maybe, cols, bucket, emit, forbid_cols=(), alt=None):
    from vf import eng
    st = eng.structures(*[eng.mkds(n, comps) for n, (comps, _r) in inputs.items()])
    dp = {n: eng.mkdf([c[0] for c in comps], [tuple(r) for r in rows]) for n, (comps, rows) in inputs.items()}
    s, r = eng.call(eng.run, script, st, dp)
    if s == "exc":
        name, code, vtl = eng.exc_info(r)
        if name in ("SemanticError", "VTLSyntaxError") or (vtl and str(code).startswith(("1-", "0-"))):
            emit({"v": "skip", "why": f"generator_rejected {name} {code}"})
        elif vtl and maybe and case["fam"] == "dp":
            # some datapoint's rule value is unspecified in the model (e.g. null / 0): a VTL run-time error is an admissible outcome
            emit({"v": "inc", "why": "model unspecified for some datapoint and the engine raised a VTL run-time error"})
        else:
            emit({"v": "viol", "b": bucket, "mech": f"{case['fam']}/valid-statement-raises/{name}:{code}", "what": f"{script[:300]}: {name} {code}: {str(r)[:200]}", "case": case})
        return
    ds = r["DS_r"]
    bad = [c for c in forbid_cols if c in ds.components]
    p = ("structure", f"components {bad} must not be in this output mode") if bad else compare(ds, key_cols, expected, maybe, cols)
    if p:
        mech = f"{case['fam']}/{p[0]}/{_mode_tag(case)}"
        if case["fam"] == "check_hierarchy" and p[0] == "wrong-ruleid":
            import re
            m = re.search(r"ruleid = '(\d+)'", p[1])
            if m and 1 <= int(m.group(1)) <= len(case["rules"]):      # another rule's position: the numbering follows the engine's sort
                mech = "check_hierarchy/unnamed-rules-numbered-in-dependency-order"
        if alt is not None and compare(ds, key_cols, alt[0], alt[1], cols) is None:
            mech = alt[2]      # the result is exactly what the alternative (listed) reading of the statement gives
        emit({"v": "viol", "b": bucket, "mech": mech, "what": f"{script[:400]} :: {p[1]}", "case": case})
    else:
        trivial = not expected and len(ds.data) == 0
        emit({"v": "held", "b": "trivial-empty" if trivial else bucket,
              "sample": {"script": script[:240], "expected_datapoints": len(expected), "unspecified_datapoints": len(maybe), "returned": len(ds.data)}})


def _mode_tag(case):
    return "/".join(str(case.get(k)) for k in ("output", "mode", "input") if k in case)


# ------------------------------------------------------------------------------------------------ check
CK_COMPS = [("Id_1", "Integer", "Identifier", False), ("Id_2", "String", "Identifier", False), ("Me_1", "Number", "Measure", True)]
CMP = {"=": lambda a, b: a == b, "<>": lambda a, b: a != b, ">": lambda a, b: a > b, "<": lambda a, b: a < b, ">=": lambda a, b: a >= b, "<=": lambda a, b: a <= b}


def make_ck(rng):
    def rows():
        return [[i, s, rng.choice([None, 0.0, 1.0, 2.5, -3.0, 10.0])] for i in (1, 2, 3) for s in ("a", "b") if rng.random() < 0.8]
    return {"fam": "check", "rows1": rows(), "rows2": rows(), "op": rng.choice(list(CMP)), "rhs": rng.choice(["ds", "ds", "scalar"]), "k": rng.choice([0, 1, 2.5, -3]),
            "imb": rng.random() < 0.6, "ec": rng.choice([None, "E1", "oops"]), "el": rng.choice([None, 1, 4, "hi"]), "output": rng.choice(["invalid", "all", None])}


def run_ck(case, emit):
    rhs = "DS_2" if case["rhs"] == "ds" else str(case["k"])
    script = f"DS_r <- check(DS_1 {case['op']} {rhs}"
    if case["ec"] is not None:
        script += f" errorcode {lit_code(case['ec'])}"
    if case["el"] is not None:
        script += f" errorlevel {lit_code(case['el'])}"
    if case["imb"]:
        script += f" imbalance DS_1 - {rhs}"
    script += (f" {case['output']}" if case["output"] else "") + ");"
    d2 = {(r[0], r[1]): r[2] for r in case["rows2"]}
    expected = {}
    output = case["output"] or "all"
    for r in case["rows1"]:
        k = (r[0], r[1])
        if case["rhs"] == "ds" and k not in d2:
            continue
        a, b = r[2], (d2[k] if case["rhs"] == "ds" else case["k"])
        bv = None if a is None or b is None else CMP[case["op"]](a, b)
        if output == "invalid" and bv is not False:
            continue
        expected[k] = {"bool_var": bv, "imbalance": (None if a is None or b is None else a - b) if case["imb"] else None,
                       "errorcode": case["ec"] if bv is False else None, "errorlevel": case["el"] if bv is False else None}
    bucket = f"check/{output}{'/default' if case['output'] is None else ''}/{case['rhs']}/imbalance={case['imb']}/{case['op']}"
    cols = ["imbalance", "errorcode", "errorlevel"] + (["bool_var"] if output == "all" else [])
    _execute(case, script, {"DS_1": (CK_COMPS, case["rows1"]), "DS_2": (CK_COMPS, case["rows2"])}, ["Id_1", "Id_2"], expected, set(), cols, bucket, emit)


# ------------------------------------------------------------------------------------------------ hierarchical rulesets
ITEMS = ["A", "B", "C", "D", "E", "F", "G", "H"]
HR_COMPS = [("Id_1", "Integer", "Identifier", False), ("Id_2", "String", "Identifier", False), ("Me_1", "Number", "Measure", True)]


def make_hr(rng, fam):
    n = rng.randint(1, 5)
    lefts = sorted(rng.sample(range(0, 5), min(n, 5)))
    rules = []
    for j, li in enumerate(lefts):
        cands = [x for x in range(li + 1, len(ITEMS))]
        rs = rng.sample(cands, rng.randint(1, min(3, len(cands))))
        rules.append({"name": f"R{j + 1}", "left": ITEMS[li], "op": "=" if fam == "hierarchy" else rng.choice(["=", "=", ">", "<", ">=", "<="]),
                      "right": [[rng.choice(["+", "+", "-"]) if t else rng.choice(["", "", "-"]), ITEMS[x]] for t, x in enumerate(rs)],
                      "ec": rng.choice([None, f"H{j}", "imbalanced"]), "el": rng.choice([None, 1, 2, 5])})
    if rng.random() < 0.3:
        for r in rules:
            r["name"] = None
    rng.shuffle(rules)
    rows = []
    for i in (1, 2, 3):
        for it in ITEMS + ["Z"]:
            if rng.random() < 0.7:
                rows.append([i, it, rng.choice([None, 0.0, 0.0, 1.0, 2.0, 3.0, 5.0, -2.0, 10.0, 7.5])])
    case = {"fam": fam, "rules": rules, "rows": rows, "mode": rng.choice(MODES + [None])}
    if fam == "hierarchy":
        case["input"] = rng.choice(["rule", "dataset", "rule_priority", None])
        case["output"] = rng.choice(["computed", "all", None])
    else:
        case["input"] = rng.choice(["dataset", None])
        case["output"] = rng.choice(["invalid", "all", "all_measures", None])
    if rng.random() < 0.25:      # consistent data: parents really are the sums, so that '=' rules hold
        _make_consistent(case, rng)
    if fam == "check_hierarchy" and rng.random() < 0.3:
        # condition component: Id_3 is a function of Id_1, some rules apply only 'when Id_3 = <val>'
        case["cond"] = {"map": {"1": rng.choice(["x", "y"]), "2": rng.choice(["x", "y"]), "3": rng.choice(["x", "y", "z"])}}
        for r in rules:
            r["when"] = rng.choice([None, "x", "y"])
    return case


def _rhs(rule, val):
    tot = 0.0
    for sign, it in rule["right"]:
        v = val(it)
        if v is None:
            return None
        tot += -v if sign == "-" else v
    return tot


def _make_consistent(case, rng):
    by = {}
    for r in case["rows"]:
        by[(r[0], r[1])] = r
    order = sorted(case["rules"], key=lambda r: -ITEMS.index(r["left"]))
    for i in (1, 2, 3):
        for rule in order:
            if rng.random() < 0.85 and all((i, it) in by and by[(i, it)][2] is not None for _s, it in rule["right"]):
                v = _rhs(rule, lambda it: by[(i, it)][2])
                if (i, rule["left"]) in by:
                    by[(i, rule["left"])][2] = v
                else:
                    row = [i, rule["left"], v]
                    by[(i, rule["left"])] = row
                    case["rows"].append(row)


def hr_script(case):
    parts = []
    for r in case["rules"]:
        rhs = " ".join(f"{s} {it}".strip() if t else f"{s}{it}" for t, (s, it) in enumerate(r["right"]))
        when = f"when Id_3 = \"{r['when']}\" then " if r.get("when") else ""
        s = (f"{r['name']}: " if r["name"] else "") + when + f"{r['left']} {r['op']} {rhs}"
        if r["ec"] is not None:
            s += f" errorcode {lit_code(r['ec'])}"
        if r["el"] is not None:
            s += f" errorlevel {lit_code(r['el'])}"
        parts.append(s)
    opts = " ".join(x for x in (case["mode"], case["input"], case["output"]) if x)
    op = "hierarchy" if case["fam"] == "hierarchy" else "check_hierarchy"
    cond = "condition Id_3 " if case.get("cond") else ""
    return (f"define hierarchical ruleset hr (variable {cond}rule Id_2) is {'; '.join(parts)} end hierarchical ruleset; "
            f"DS_r <- {op}(DS_1, hr {cond}rule Id_2{' ' + opts if opts else ''});")


MISSING = ("missing",)


def _produced(mode, vals):
    """vals: raw item values (MISSING / None / number). -> True / False / 'unspec'"""
    present = [v for v in vals if v is not MISSING]
    nonnull = [v for v in present if v is not None]
    if mode == "non_null":
        return len(nonnull) == len(vals)
    if mode == "non_zero":
        if any(v != 0 for v in nonnull):
            return True
        return "unspec" if any(v is None for v in present) else False
    if mode in ("partial_null", "partial_zero"):
        return bool(nonnull)
    return True if present else "unspec"     # always_*


def _subst(mode, v):
    if v is MISSING:
        return 0.0 if mode.endswith("zero") else None
    return v


def run_chk_hier(case, emit):
    mode = case["mode"] or "non_null"
    output = case["output"] or "invalid"
    data = {(r[0], r[1]): r[2] for r in case["rows"]}
    expected, maybe = {}, set()
    feats = set()
    for i, rule in enumerate(case["rules"]):
        rid = rule["name"] or str(i + 1)
        items = [rule["left"]] + [it for _s, it in rule["right"]]
        for g in (1, 2, 3):
            raw = [data.get((g, it), MISSING) for it in items]
            key = (g, rule["left"], rid)
            if all(v is MISSING for v in raw):
                maybe.add(key)
                continue
            pr = _produced(mode, raw)
            lv = _subst(mode, raw[0])
            rv = _rhs(rule, lambda it: _subst(mode, data.get((g, it), MISSING)))
            if pr == "unspec" or (mode == "non_zero" and pr is True and lv == 0 and rv == 0):
                maybe.add(key)
                continue
            if not pr:
                continue
            if case.get("cond") and rule.get("when") and case["cond"]["map"][str(g)] != rule["when"]:
                # the rule does not apply to this group: outcome TRUE (never invalid); the imbalance of a rule that was not evaluated is not compared
                feats.add("when-false")
                if output != "invalid":
                    expected[key] = {"bool_var": True, "imbalance": ANY, "errorcode": None, "errorlevel": None, "Me_1": ANY}
                continue
            if case.get("cond") and rule.get("when"):
                feats.add("when-true")
            bv = None if lv is None or rv is None else CMP[rule["op"]](round(lv, 9), round(rv, 9))
            if bv is None:
                feats.add("null-outcome")
            if any(v is MISSING for v in raw):
                feats.add("missing-item")
            if output == "invalid" and bv is not False:
                continue
            vals = {"imbalance": None if lv is None or rv is None else lv - rv, "errorcode": rule["ec"] if bv is False else None, "errorlevel": rule["el"] if bv is False else None}
            if output != "invalid":
                vals["bool_var"] = bv
            if output != "all":
                vals["Me_1"] = lv
            expected[key] = vals
    cols = ["imbalance", "errorcode", "errorlevel"] + (["bool_var"] if output != "invalid" else []) + (["Me_1"] if output != "all" else [])
    bucket = f"check_hierarchy/{output}{'/default' if case['output'] is None else ''}/{mode}{'/default' if case['mode'] is None else ''}/{'+'.join(sorted(feats)) or 'plain'}"
    key_cols = ["Id_1", "Id_2", "ruleid"]
    if case["rules"][0]["name"] is None:
        # unnamed rules: the left code items are distinct, so (Id_1, Id_2) identifies the rule; the default ruleid (position of the
        # rule as written) is compared last, as a value, so that a numbering defect does not hide the other columns
        expected = {k[:2]: dict(v, ruleid=k[2]) for k, v in expected.items()}
        maybe = {k[:2] for k in maybe}
        key_cols, cols = ["Id_1", "Id_2"], cols + ["ruleid"]
    comps, rows = HR_COMPS, case["rows"]
    if case.get("cond"):
        comps = [HR_COMPS[0], ("Id_3", "String", "Identifier", False)] + HR_COMPS[1:]
        rows = [[r[0], case["cond"]["map"][str(r[0])], r[1], r[2]] for r in case["rows"]]
    _execute(case, hr_script(case), {"DS_1": (comps, rows)}, key_cols, expected, maybe, cols, bucket, emit,
             forbid_cols=(["bool_var"] if output == "invalid" else []) + (["Me_1"] if output == "all" else []))


def run_hier(case, emit):
    inp = case["input"] or "rule"
    expected, maybe, bucket = hier_model(case, inp)
    alt = None
    if inp == "dataset":
        # known finding: the engine (deliberately, an upstream test pins it) lets later rules see computed values in dataset mode
        e2, m2, _b = hier_model(case, "rule")
        alt = (e2, m2, "hierarchy/input-mode-dataset-uses-values-computed-by-other-rules")
    _execute(case, hr_script(case), {"DS_1": (HR_COMPS, case["rows"])}, ["Id_1", "Id_2"], expected, maybe, ["Me_1"], bucket, emit, alt=alt)


def hier_model(case, inp):
    mode = case["mode"] or "non_null"
    output = case["output"] or "computed"
    data = {(r[0], r[1]): r[2] for r in case["rows"]}
    lefts = {r["left"]: r for r in case["rules"]}
    order = sorted(case["rules"], key=lambda r: -ITEMS.index(r["left"]))      # children (later letters) first: a valid dependency order
    computed, maybe = {}, set()
    status = {}      # (g, item) -> 'produced' | 'absent' | 'unspec'
    feats = set()
    for rule in order:
        for g in (1, 2, 3):
            key = (g, rule["left"])
            tainted = False
            vals = {}
            for _s, it in rule["right"]:
                dv = data.get((g, it), MISSING)
                if inp == "dataset" or it not in lefts:
                    vals[it] = dv
                    continue
                st_ = status.get((g, it))
                if st_ == "unspec":
                    tainted = True
                elif st_ == "produced":
                    cv = computed[(g, it)]
                    feats.add("uses-computed")
                    vals[it] = dv if (inp == "rule_priority" and cv is None) else cv
                    if inp == "rule_priority" and cv is None and dv is MISSING:
                        vals[it] = None
                else:   # lower rule produced nothing for this group
                    if inp == "rule" and dv is not MISSING:
                        tainted = True     # manual silent: dataset value or missing?
                    vals[it] = dv
            if tainted:
                status[key] = "unspec"
                maybe.add(key)
                continue
            raw = [vals[it] for _s, it in rule["right"]]
            pr = _produced(mode, raw)
            v = _rhs(rule, lambda it: _subst(mode, vals[it]))
            if pr == "unspec" or (mode == "non_zero" and pr is True and v == 0):
                status[key] = "unspec"
                maybe.add(key)
                continue
            if not pr:
                status[key] = "absent"
                continue
            if any(x is MISSING for x in raw):
                feats.add("missing-item")
            status[key] = "produced"
            computed[key] = v
    expected = {k: {"Me_1": v} for k, v in computed.items()}
    if output == "all":
        for k, v in data.items():
            if k not in expected and k not in maybe:
                expected[k] = {"Me_1": v}
    bucket = f"hierarchy/{output}{'/default' if case['output'] is None else ''}/{mode}{'/default' if case['mode'] is None else ''}/{inp}{'/default' if case['input'] is None else ''}/{'+'.join(sorted(feats)) or 'plain'}"
    return expected, maybe, bucket


RUNNERS = {"dp": run_dp, "check": run_ck, "check_hierarchy": run_chk_hier, "hierarchy": run_hier}


def make_case(rng):
    f = rng.choice(["dp", "dp", "check", "check_hierarchy", "check_hierarchy", "hierarchy", "hierarchy"])
    if f == "dp":
        return make_dp(rng)
    if f == "check":
        return make_ck(rng)
    return make_hr(rng, f)


def run_shard(spec, emit):
    from vf import eng
    rng = random.Random(f"C07-{spec['seed']}-{spec['shard']}")
    bud = eng.Budget(spec.get("budget_s", 100 if spec["tier"] == "quick" else 2400))
    for _ in range(spec["n"]):
        if not bud.ok():
            emit({"v": "inc", "why": "cut by wall-clock budget"})
            break
        case = json.loads(json.dumps(make_case(rng)))
        RUNNERS[case["fam"]](case, emit)


def replay(case, emit):
    RUNNERS[case["fam"]](case, emit)
