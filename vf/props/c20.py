"""C20 — validate_dataset agrees with run() on which inputs are valid.
Monitor: for every generated table (C19's input space) in DataFrame and CSV form, validate_dataset() on a private copy
raises exactly when run('DS_r <- DS_1;') rejects the same input."""
import os
import random

ID = "C20"
LEVEL = "exploration"
RULE = ("the generated input space of C19 (every component type and role, valid / invalid / undocumented cells, table-level "
        "violations) in DataFrame (object strings) and CSV form; validate_dataset() is given a private copy of the DataFrame. "
        "Oracle: validate_dataset() raises <=> run() of a script that reads the dataset rejects the same input. "
        "Bucket = (violation kind or 'valid', component type, role, form, both accept / both reject); one evaluation = one pair.")
ASSUMPTIONS = ["no validity model is involved: the two entry points are compared with each other"]
FLOORS = {"quick": (400, 60), "thorough": (9000, 120)}
NSH = 16
N = {"quick": 45, "thorough": 1000}
FORMS = ["csv", "df-object"]


def shards(tier, seed):
    return [{"shard": i, "nshards": NSH, "n": N[tier]} for i in range(NSH)]


def run_case(case, emit):
    from vf import eng, inputs
    import vtlengine
    from vf.props.c19 import tag_of
    st = inputs.structure(case)
    work = os.path.join(eng.SCRATCH, "inputs20")
    kind = "+".join(sorted(case["viol"])) or "valid"
    for form in FORMS:
        dp = inputs.materialise(case, form, work, "t")
        s1, r1 = eng.call(eng.run, "DS_r <- DS_1;", st, {"DS_1": dp.copy() if hasattr(dp, "copy") else dp})
        s2, r2 = eng.call(vtlengine.API.validate_dataset, st, {"DS_1": dp.copy() if hasattr(dp, "copy") else dp})
        agree = (s1 == "exc") == (s2 == "exc")
        bucket = f"{kind}/{case['type']}/{case['role']}/{form}/{'reject' if s1 == 'exc' else 'accept'}"
        cells = [c[0] for c in case["cells"]]
        if agree:
            emit({"v": "held", "b": bucket, "sample": {"type": case["type"], "form": form, "cells": cells, "both": "reject" if s1 == "exc" else "accept"}})
        else:
            who = "run-rejects-validate_dataset-accepts" if s1 == "exc" else "run-accepts-validate_dataset-rejects"
            err = r1 if s1 == "exc" else r2
            tag = tag_of(case)
            if tag.startswith("cell:"):
                tag = "documented-invalid-cell"
            emit({"v": "viol", "b": bucket, "mech": f"{case['type']}/{who}/{tag}",
                  "what": f"{case['type']} {case['role']} ({form}) cells {cells} violations {case['viol']}: {who} ({type(err).__name__}: {str(err)[:140]})", "case": case})


def run_shard(spec, emit):
    from vf import eng, inputs
    rng = random.Random(f"C20-{spec['seed']}-{spec['shard']}")
    bud = eng.Budget(spec.get("budget_s", 100 if spec["tier"] == "quick" else 2400))
    for i, case in enumerate(inputs.cell_sweep()):          # deterministic: every catalogued cell once
        if i % spec["nshards"] == spec["shard"]:
            run_case(case, emit)
    for _ in range(spec["n"]):
        if not bud.ok():
            emit({"v": "inc", "why": "cut by wall-clock budget"})
            break
        run_case(inputs.make_table(rng), emit)


def replay(case, emit):
    run_case(case, emit)
