"""C25 — generate_sdmx produces a TransformationScheme equivalent to the script."""
import random

ID = "C25"
LEVEL = "exploration"
RULE = ("every valid corpus script and generated scripts with rulesets / user-defined operators / mixed persistence. "
        "Oracle: one Transformation per assignment of the script (the statement list comes from the harness-side parse, not from "
        "the engine) with the same result name and the same persistence; each ruleset / operator definition of the scheme "
        "re-parses to an AST equal (positions ignored) to the original definition; run(scheme) equals run(script) on the case's "
        "data. Bucket = (source, has rulesets, has UDOs, statement count class, persistence mix); one evaluation = one script.")
ASSUMPTIONS = ["pysdmx' generate_vtl_script() is trusted to concatenate the scheme's items into the text that run(scheme) executes"]
FLOORS = {"quick": (200, 12), "thorough": (1500, 20)}
REQUIRED_COUNTERS = {"run_equivalence_pairs": 20}
NSH = 16


def shards(tier, seed):
    return [{"shard": i, "nshards": NSH} for i in range(NSH)]


def harness_statements(script):
    """[(kind, name, persistent)] from the stand-in's private parse: kind in assign/define."""
    import re
    import vboot
    stmts = vboot.shim.split_statements(script)
    if stmts is None:
        return None
    out = []
    for s in stmts:
        t = s.strip()
        # strip leading comments
        t = re.sub(r"^(\s*(/\*.*?\*/|//[^\n]*\n))*\s*", "", t, flags=re.S)
        if t.startswith("define"):
            out.append(("define", t, None))
            continue
        m = re.match(r"^('[^']*'|[A-Za-z_][A-Za-z0-9_.]*)\s*(<-|:=)", t)
        if not m:
            return None
        out.append(("assign", m.group(1).strip("'"), m.group(2) == "<-"))
    return out


def check_script(script, source, emit, case, run_kw=None):
    from vf import eng
    from vf.props.c24 import first_diff, shape
    from vtlengine.API import create_ast, generate_sdmx
    import vtlengine.AST as AST
    s0, a0 = eng.call(create_ast, script)
    if s0 == "exc":
        emit({"v": "skip", "why": "script does not parse"})
        return
    hs = harness_statements(script)
    if hs is None:
        emit({"v": "skip", "why": "harness cannot split the statements"})
        return
    assigns = [(n, p) for k, n, p in hs if k == "assign"]
    ndef = sum(1 for k, _, _ in hs if k == "define")
    if not assigns:
        emit({"v": "skip", "why": "script without any assignment (not a transformation script)"})
        return
    s1, ts = eng.call(generate_sdmx, script, "MD", "TS1")
    pers = {p for _, p in assigns}
    bucket = (f"{source}/rulesets={'ruleset' in script}/udos={'define operator' in script}/"
              f"n={min(len(assigns), 6)}/persist={'mixed' if len(pers) > 1 else ('all' if pers == {True} else 'none')}")
    if s1 == "exc":
        emit({"v": "viol", "b": bucket, "mech": f"generate_sdmx-raises/{type(ts).__name__}/{eng.raise_site(ts)}",
              "what": f"generate_sdmx raised {type(ts).__name__}: {str(ts)[:200]} on {script[:160]!r}", "case": case})
        return
    problems = []
    items = list(ts.items)
    got = [(t.result, bool(t.is_persistent)) for t in items]
    if sorted(got) != sorted(assigns):      # the scheme may list them in dependency order: compared as a multiset
        problems.append(("transformations-differ", f"scheme has {sorted(got)[:6]} but the script assigns {sorted(assigns)[:6]}"))
    # definitions re-parse to the original
    orig_defs = [c for c in a0.children if isinstance(c, (AST.Operator, AST.DPRuleset, AST.HRuleset))]
    new_defs = []
    for sch in (getattr(ts, "ruleset_schemes", None) or []):
        new_defs += [r.ruleset_definition for r in sch.items]
    for sch in (getattr(ts, "user_defined_operator_schemes", None) or []):
        new_defs += [u.operator_definition for u in sch.items]
    n_other_defs = ndef - len(orig_defs)
    if len(new_defs) != len(orig_defs):
        problems.append(("definition-count", f"{len(new_defs)} definitions in the scheme vs {len(orig_defs)} rulesets/operators in the script"))
    else:
        reparsed = []
        for d in new_defs:
            sd, ad = eng.call(create_ast, d if d.rstrip().endswith(";") else d + ";")
            if sd == "exc":
                problems.append(("definition-does-not-reparse", f"{d[:120]!r}: {type(ad).__name__}"))
                break
            reparsed += [c for c in ad.children if isinstance(c, (AST.Operator, AST.DPRuleset, AST.HRuleset))]
        else:
            so = sorted((shape(x) for x in orig_defs), key=repr)
            sn = sorted((shape(x) for x in reparsed), key=repr)
            if so != sn:
                import copy

                def unordered(x):
                    if type(x).__name__ != "HRuleset":
                        return repr(shape(x))
                    y = copy.deepcopy(x)
                    y.rules = sorted(y.rules, key=lambda r: repr(shape(r)))
                    return repr(shape(y))
                uo = sorted(unordered(x) for x in orig_defs)
                un = sorted(unordered(x) for x in reparsed)
                kind = "hruleset-rule-order-not-stable" if uo == un else "definition-ast-differs"
                problems.append((kind, first_diff(tuple(so), tuple(sn)) or "differs"))
    # each transformation's expression re-parses to the original right-hand side
    if not problems:
        by_name = {c.left.value: shape(c.right) for c in a0.children if isinstance(c, (AST.Assignment, AST.PersistentAssignment))}
        for t in items:
            o = by_name.get(t.result)
            se, ae = eng.call(create_ast, f"x := {t.expression};")
            if se == "exc":
                kind = "expression-does-not-reparse"
                if re.search(r"group (by|except)[^\]]*,\s*time_agg\(", t.expression) and not re.search(r"group (by|except)[^\]]*,\s*time_agg\(", script):
                    kind += "/comma-inserted-before-time_agg-in-group-clause"
                problems.append((kind, f"{t.expression[:120]!r}"))
                break
            if shape(ae.children[0].right) != o:
                problems.append(("expression-ast-differs", first_diff(o, shape(ae.children[0].right)) or t.expression[:100]))
                break
    if run_kw is not None and not problems:
        sa, ra = eng.call(eng.run, script=script, **run_kw)
        if sa == "ok":
            sb, rb = eng.call(eng.run, script=ts, **run_kw)
            emit({"v": "ctr", "ctr": {"run_equivalence_pairs": 1}})
            if sb == "exc":
                kind = "viral-propagation-definitions-not-carried" if "define viral propagation" in script else "scheme-fails-to-run"
                problems.append((kind, f"{type(rb).__name__}: {str(rb)[:160]}"))
            else:
                d = eng.digests_equal(eng.result_digest(rb), eng.result_digest(ra))
                if d:
                    problems.append(("run-results-differ", d))
    if problems:
        emit({"v": "viol", "b": bucket, "mech": "generate_sdmx/" + problems[0][0], "what": f"{script[:200]!r}: {problems[:2]}", "case": case})
    else:
        emit({"v": "held", "b": bucket, "sample": {"source": source, "script": script[:160], "transformations": got[:5],
                                                   "definitions": len(new_defs)}})


GEN = [
    "DS_r <- DS_1 + 1;",
    "DS_a := DS_1 * 2; DS_r <- DS_a[filter Me_1 > 0]; DS_s := DS_a[calc Me_2 := Me_1 + 1.5];",
    "define operator addk (d dataset, k number default 2.5) returns dataset is d + k end operator; DS_r <- addk(DS_1, 1); DS_t := addk(DS_1);",
    "define datapoint ruleset dpr (variable Me_1) is r1: when Me_1 > 0 then Me_1 < 100 errorcode \"E1\" errorlevel 3; r2: Me_1 <> 5 end datapoint ruleset; DS_r <- check_datapoint(DS_1, dpr all);",
    "define hierarchical ruleset hr (variable rule Id_2) is A = B + C errorcode \"H\" errorlevel 1; D >= A - B end hierarchical ruleset; DS_r <- check_hierarchy(DS_1, hr rule Id_2 all);",
    "define operator sq (x number) returns number is x * x end operator; DS_r <- DS_1[calc Me_2 := sq(Me_1)]; sc_r <- sq(3);",
    "DS_r <- inner_join(DS_1 as a, DS_2 as b using Id_1, Id_2 keep a#Me_1); DS_u := union(DS_1, DS_2);",
    "DS_r <- DS_1[aggr Me_2 := sum(Me_1), Me_3 := count() group by Id_1 having avg(Me_1) > 0.0];",
    "sc_a := 1 + 2; sc_b <- sc_a * 3.5; DS_r <- DS_1 * sc_b;",
    "DS_r <- if DS_1 > 0 then DS_1 else DS_1 * -1; DS_n <- nvl(DS_1, 0);",
    "define operator mx (a dataset, b dataset) returns dataset is if a > b then a else b end operator; define operator two (d dataset) returns dataset is mx(d, d * 2) end operator; DS_r <- two(DS_1);",
    # definitions of different kinds that share a name (separate namespaces), several definitions of one kind
    "define datapoint ruleset rs (variable Me_1) is r1: Me_1 > 0 errorcode \"E1\" end datapoint ruleset; "
    "define hierarchical ruleset rs (variable rule Id_2) is A = B + C errorcode \"H\" end hierarchical ruleset; "
    "DS_r <- check_datapoint(DS_1, rs all); DS_h <- check_hierarchy(DS_1, rs rule Id_2 all);",
    "define datapoint ruleset d1 (variable Me_1) is Me_1 > 0 end datapoint ruleset; define datapoint ruleset d2 (variable Me_1) is r1: Me_1 < 10 errorlevel 0 end datapoint ruleset; "
    "DS_r <- check_datapoint(DS_1, d1); DS_s <- check_datapoint(DS_1, d2 all_measures);",
    "define hierarchical ruleset h1 (variable rule Id_2) is A = B + C; B = D end hierarchical ruleset; define hierarchical ruleset h2 (variable rule Id_2) is A >= C end hierarchical ruleset; "
    "DS_r <- hierarchy(DS_1, h1 rule Id_2 partial_zero dataset all); DS_s <- hierarchy(DS_1, h1 rule Id_2 non_zero rule_priority computed); DS_t <- check_hierarchy(DS_1, h2 rule Id_2 always_null dataset all_measures); "
    "DS_u <- hierarchy(DS_1, h1 rule Id_2 rule); DS_v <- check_hierarchy(DS_1, h2 rule Id_2 dataset_priority invalid);",
    "define operator rs (d dataset) returns dataset is d * 2 end operator; define datapoint ruleset rs (variable Me_1) is Me_1 > 1 end datapoint ruleset; DS_r <- check_datapoint(rs(DS_1), rs all);",
    "DS_r <- check_datapoint(DS_1, late all); define datapoint ruleset late (variable Me_1) is Me_1 > 2 errorcode \"\" end datapoint ruleset;",
]


def run_shard(spec, emit):
    from vf import corpus, eng, rider
    tier = spec["tier"]
    rng = random.Random(f"C25-{spec['seed']}-{spec['shard']}")
    bud = eng.Budget(spec.get("budget_s", 100 if tier == "quick" else 2400))
    comps = [("Id_1", "Integer", "Identifier", False), ("Id_2", "String", "Identifier", False), ("Me_1", "Number", "Measure", True)]
    st = eng.structures(eng.mkds("DS_1", comps), eng.mkds("DS_2", comps))
    rows = [(1, "A", 12.5), (1, "B", 4.0), (1, "C", 8.5), (2, "A", None), (2, "D", -3.0)]
    for i, script in enumerate(GEN):
        if i % spec["nshards"] == spec["shard"] or tier == "thorough" and (i + spec["shard"]) % 5 == 0:
            # vary arrows to mix persistence
            for variant in range(2):
                s = script if variant == 0 else script.replace(":=", "\x00").replace("<-", ":=").replace("\x00", "<-")
                s = s.replace("is r1<-", "is r1:=")
                run_kw = {"data_structures": st, "datapoints": {"DS_1": eng.mkdf([c[0] for c in comps], rows), "DS_2": eng.mkdf([c[0] for c in comps], rows[:3])},
                          "return_only_persistent": False}
                check_script(s, "gen", emit, {"script": s}, run_kw)
    for j, c in enumerate(rider.corpus_slice(spec, quick_fraction=4, big=False, tag="C25")):
        if not bud.ok():
            emit({"v": "inc", "why": "cut by wall-clock budget"})
            break
        try:
            kw = corpus.run_kwargs(c)
        except Exception:  # noqa: BLE001
            continue
        run_kw = None
        if j % (4 if tier == "quick" else 2) == 0:
            run_kw = {k: v for k, v in kw.items() if k != "script"}
            run_kw["return_only_persistent"] = False
        check_script(kw["script"], f"corpus:{c['area'].split('/')[0]}", emit, {"corpus": c}, run_kw)


def replay(case, emit):
    from vf import corpus, eng
    if "corpus" in case:
        kw = corpus.run_kwargs(case["corpus"])
        run_kw = {k: v for k, v in kw.items() if k != "script"}
        run_kw["return_only_persistent"] = False
        check_script(kw["script"], "corpus", emit, case, run_kw)
    else:
        comps = [("Id_1", "Integer", "Identifier", False), ("Id_2", "String", "Identifier", False), ("Me_1", "Number", "Measure", True)]
        st = eng.structures(eng.mkds("DS_1", comps), eng.mkds("DS_2", comps))
        rows = [(1, "A", 12.5), (1, "B", 4.0), (1, "C", 8.5), (2, "A", None), (2, "D", -3.0)]
        run_kw = {"data_structures": st, "datapoints": {"DS_1": eng.mkdf([c[0] for c in comps], rows), "DS_2": eng.mkdf([c[0] for c in comps], rows[:3])},
                  "return_only_persistent": False}
        check_script(case["script"], "gen", emit, case, run_kw)
