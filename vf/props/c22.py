"""C22 — public API calls never modify the caller's arguments.
Monitor: deep snapshot of every argument before the call, comparison after it (success or failure)."""
import random

ID = "C22"
LEVEL = "exploration"
RULE = ("calls of run / semantic_analysis / validate_dataset / prettify / generate_sdmx / run_sdmx on corpus scripts (their "
        "structures as dicts, their data as Path and as DataFrames read from the CSVs, value domains and routines as dicts) and "
        "on targeted calls (BOM-prefixed column names, missing nullable columns, structure components omitting optional keys, "
        "empty strings, typed/categorical columns, extra columns, scalar_values, failing inputs); deep snapshot (nested "
        "dict/list structure and key order, DataFrame columns/dtypes/index/values NaN-aware/attrs) before vs after. "
        "One evaluation = one API call; bucket = (function, argument kinds, outcome ok/raised, source). URL datapoints "
        "(the only documented in-place substitution) are unreachable offline and not covered.")
ASSUMPTIONS = ["pysdmx objects are compared through their repr (frozen msgspec structs)"]
FLOORS = {"quick": (400, 20), "thorough": (4000, 30)}
REQUIRED_COUNTERS = {"dataframes_snapshotted": 100}
NSH = 16


def shards(tier, seed):
    return [{"shard": i, "nshards": NSH} for i in range(NSH)]


def snap(o, ctr=None):
    import pandas as pd
    from pathlib import Path
    from vf.eng import norm
    if isinstance(o, pd.DataFrame):
        if ctr is not None:
            ctr["dataframes_snapshotted"] = ctr.get("dataframes_snapshotted", 0) + 1
        return ("df", [repr(c) for c in o.columns], [str(t) for t in o.dtypes], [repr(i) for i in o.index],
                [[repr(norm(v)) for v in o[c].tolist()] for c in o.columns] if o.columns.is_unique else repr(o.values.tolist()),
                repr(dict(o.attrs)))
    if isinstance(o, dict):
        return ("dict", [(repr(k), snap(v, ctr)) for k, v in o.items()])
    if isinstance(o, (list, tuple)):
        return (type(o).__name__, [snap(v, ctr) for v in o])
    if isinstance(o, Path):
        return ("path", str(o))
    if hasattr(o, "data") and isinstance(getattr(o, "data", None), pd.DataFrame):
        return ("list", [snap(o.data, ctr), ("val", "structure", repr(getattr(o, "structure", None)))])
    return ("val", type(o).__name__, repr(o))


def diff(a, b, path=""):
    if a == b:
        return None
    if a[0] != b[0]:
        return f"{path}: {a[0]} became {b[0]}"
    if a[0] == "dict":
        ka, kb = [k for k, _ in a[1]], [k for k, _ in b[1]]
        if ka != kb:
            return f"{path}: dict keys {ka} became {kb}"
        for (k, x), (_, y) in zip(a[1], b[1]):
            d = diff(x, y, f"{path}[{k}]")
            if d:
                return d
    if a[0] in ("list", "tuple"):
        if len(a[1]) != len(b[1]):
            return f"{path}: length {len(a[1])} became {len(b[1])}"
        for i, (x, y) in enumerate(zip(a[1], b[1])):
            d = diff(x, y, f"{path}[{i}]")
            if d:
                return d
    if a[0] == "df":
        for nm, x, y in zip(("columns", "dtypes", "index", "values", "attrs"), a[1:], b[1:]):
            if x != y:
                return f"{path}: DataFrame {nm} changed: {str(x)[:120]} -> {str(y)[:120]}"
    return f"{path}: {str(a)[:100]} became {str(b)[:100]}"


def kinds(args):
    import pandas as pd
    from pathlib import Path
    out = set()

    def walk(o):
        if isinstance(o, pd.DataFrame):
            out.add("df")
        elif isinstance(o, dict):
            out.add("dict")
            for v in o.values():
                walk(v)
        elif isinstance(o, (list, tuple)):
            for v in o:
                walk(v)
        elif isinstance(o, Path):
            out.add("path")
    walk(args)
    return "+".join(sorted(out))


def monitored(fname, kwargs, source, emit, case):
    """Call vtlengine.<fname>(**kwargs) with snapshots."""
    import vtlengine
    from vf import eng
    ctr = {}
    before = snap(kwargs, ctr)
    status, r = eng.call(getattr(vtlengine.API, fname), **kwargs)
    after = snap(kwargs)
    emit({"v": "ctr", "ctr": ctr}) if ctr else None
    outcome = "ok" if status == "ok" else "raised"
    bucket = f"{fname}/{kinds(kwargs)}/{outcome}/{source}"
    d = diff(before, after, "args")
    if d:
        argname = d.split("[", 2)[1].split("]")[0] if "[" in d else "?"
        what = "dataframe" if "DataFrame" in d else ("dict-keys" if "dict keys" in d else "value")
        emit({"v": "viol", "b": bucket, "mech": f"{fname}/mutates-{argname.strip(chr(39))}/{what}",
              "what": f"{fname} ({outcome}{'' if status == 'ok' else ': ' + type(r).__name__}) changed its argument: {d}", "case": case})
    else:
        emit({"v": "held", "b": bucket, "sample": {"fn": fname, "source": source, "outcome": outcome,
                                                   "arg_kinds": kinds(kwargs)}})
    return status, r


def corpus_calls(c, emit, rng):
    import pandas as pd
    from vf import corpus
    try:
        kw = corpus.run_kwargs(c)
    except Exception as e:  # noqa: BLE001
        emit({"v": "skip", "why": f"corpus load {type(e).__name__}"})
        return
    case = {"corpus": c}
    src = "corpus"
    # DataFrame form of the datapoints
    dfs = {}
    try:
        for k, p in kw["datapoints"].items():
            dfs[k] = pd.read_csv(p, dtype=str, keep_default_na=False, na_values=[""])
    except Exception:  # noqa: BLE001
        dfs = None
    monitored("run", dict(kw), src, emit, case)
    if dfs is not None:
        monitored("run", dict(kw, datapoints=dfs, return_only_persistent=False), src, emit, case)
        monitored("validate_dataset", {"data_structures": kw["data_structures"], "datapoints": dfs}, src, emit, case)
    monitored("semantic_analysis", {k: v for k, v in kw.items() if k != "datapoints"}, src, emit, case)
    monitored("prettify", {"script": kw["script"]}, src, emit, case)
    monitored("generate_sdmx", {"script": kw["script"], "agency_id": "MD", "id": "TS1"}, src, emit, case)


def targeted(rng, emit):
    import numpy as np
    import pandas as pd
    from vf import eng
    comps_full = [{"name": "Id_1", "type": "Integer", "role": "Identifier", "nullable": False},
                  {"name": "Id_2", "type": "String", "role": "Identifier", "nullable": False},
                  {"name": "Me_1", "type": "Number", "role": "Measure", "nullable": True},
                  {"name": "Me_2", "type": "String", "role": "Measure", "nullable": True},
                  {"name": "At_1", "type": "Date", "role": "Attribute", "nullable": True}]
    variants = []

    def structure(omit_nullable=False, data_type_key=False):
        cs = []
        for c in comps_full:
            d = dict(c)
            if omit_nullable:
                d.pop("nullable")
            if data_type_key:
                d["data_type"] = d.pop("type")
            cs.append(d)
        return {"datasets": [{"name": "DS_1", "DataStructure": cs}], "scalars": [{"name": "sc_1", "type": "Integer"}]}

    base_cols = {"Id_1": [1, 2, 3], "Id_2": ["a", "b", "c"], "Me_1": [1.5, None, 3.25], "Me_2": ["x", "", None],
                 "At_1": ["2020-01-01", None, "2021-12-31"]}

    def frames():
        out = {}
        out["plain-object"] = pd.DataFrame(base_cols, dtype=object)
        out["native"] = pd.DataFrame(base_cols)
        d = pd.DataFrame(base_cols)
        d.columns = ["﻿Id_1"] + list(d.columns[1:])
        out["bom-column"] = d
        out["missing-nullable-columns"] = pd.DataFrame({k: v for k, v in base_cols.items() if k not in ("Me_2", "At_1")})
        d = pd.DataFrame(base_cols)
        d["extra"] = [1, 2, 3]
        out["extra-column"] = d
        d = pd.DataFrame(base_cols)
        d["Id_2"] = d["Id_2"].astype("category")
        out["categorical"] = d
        out["strings"] = pd.DataFrame({k: [None if x is None else str(x) for x in v] for k, v in base_cols.items()}, dtype="string")
        d = pd.DataFrame(base_cols)
        d.index = [10, 20, 30]
        d.attrs["note"] = "caller metadata"
        out["custom-index-attrs"] = d
        d = pd.DataFrame(base_cols)[["Me_2", "At_1", "Id_2", "Me_1", "Id_1"]]
        out["shuffled-columns"] = d
        out["duplicate-keys"] = pd.DataFrame({"Id_1": [1, 1], "Id_2": ["a", "a"], "Me_1": [1.0, 2.0], "Me_2": ["p", "q"], "At_1": [None, None]})
        out["bad-integer"] = pd.DataFrame({"Id_1": ["x", 2], "Id_2": ["a", "b"], "Me_1": [1.0, 2.0], "Me_2": ["p", "q"], "At_1": [None, None]})
        out["null-identifier"] = pd.DataFrame({"Id_1": [None, 2], "Id_2": ["a", "b"], "Me_1": [1.0, 2.0], "Me_2": ["p", "q"], "At_1": [None, None]})
        out["numpy-nan-float32"] = pd.DataFrame({"Id_1": np.array([1, 2], dtype="int32"), "Id_2": ["a", "b"],
                                                 "Me_1": np.array([np.nan, 2.0], dtype="float32"), "Me_2": ["p", "q"], "At_1": [None, None]})
        out["empty"] = pd.DataFrame({k: [] for k in base_cols})
        out["datetime-column"] = pd.DataFrame(dict(base_cols, At_1=pd.to_datetime(["2020-01-01", None, "2021-12-31"])))
        return out

    scripts = ["DS_r <- DS_1;", "DS_r <- DS_1[calc Me_3 := Me_1 + sc_1];", "DS_r <- DS_1[filter Me_1 > 1][keep Me_1];",
               "DS_r <- DS_1 + ;", "DS_r <- DS_2;"]
    for sname, stf in (("full", lambda: structure()), ("omit-nullable", lambda: structure(True)), ("data_type-key", lambda: structure(False, True))):
        for fname, df in frames().items():
            for si, script in enumerate(scripts):
                if si >= 2 and fname not in ("plain-object", "bom-column"):
                    continue
                src = f"targeted:{sname}:{fname}"
                case = {"targeted": [sname, fname, si]}
                st = stf()
                monitored("run", {"script": script, "data_structures": st, "datapoints": {"DS_1": df.copy()},
                                  "scalar_values": {"sc_1": 2}, "return_only_persistent": rng.random() < 0.5}, src, emit, case)
                if si == 0:
                    monitored("validate_dataset", {"data_structures": st, "datapoints": {"DS_1": df.copy()},
                                                   "scalar_values": {"sc_1": 2}}, src, emit, case)
                    monitored("semantic_analysis", {"script": script, "data_structures": st}, src, emit, case)
    # value domains / external routines as dicts, list-valued arguments
    vd = {"name": "Countries", "setlist": ["DE", "FR", "IT"], "type": "String"}
    er = {"name": "SQL_1", "query": "SELECT Id_1, Id_2, Me_1 FROM DS_1;"}
    st = structure()
    monitored("run", {"script": "DS_r <- DS_1[filter Id_2 in Countries];", "data_structures": [st],
                      "datapoints": {"DS_1": frames()["plain-object"]}, "value_domains": [vd]}, "targeted:value-domain", emit, {"targeted": "vd"})
    monitored("semantic_analysis", {"script": "DS_r <- DS_1[filter Id_2 in Countries];", "data_structures": [st], "value_domains": vd},
              "targeted:value-domain", emit, {"targeted": "vd"})
    monitored("run", {"script": 'DS_r <- eval(SQL_1(DS_1) language "SQL" returns dataset {identifier<integer> Id_1, identifier<string> Id_2, measure<number> Me_1});',
                      "data_structures": st, "datapoints": {"DS_1": frames()["plain-object"]}, "external_routines": [er]},
              "targeted:external-routine", emit, {"targeted": "er"})
    # run_sdmx with PandasDataset
    try:
        from pysdmx.io.pd import PandasDataset
        from pysdmx.model import Component, Components, Concept, Role
        from pysdmx.model.dataflow import Schema
        from pysdmx.model import DataType
        comps = Components([
            Component(id="DIM_1", required=True, role=Role.DIMENSION, concept=Concept(id="DIM_1"), local_dtype=DataType.STRING),
            Component(id="OBS_VALUE", required=False, role=Role.MEASURE, concept=Concept(id="OBS_VALUE"), local_dtype=DataType.DOUBLE),
        ])
        schema = Schema(context="datastructure", agency="MD", id="DSD1", version="1.0", components=comps)
        for fname, df in (("plain", pd.DataFrame({"DIM_1": ["a", "b"], "OBS_VALUE": [1.0, None]})),
                          ("bom", pd.DataFrame({"﻿DIM_1": ["a", "b"], "OBS_VALUE": [1.0, 2.0]})),
                          ("strings", pd.DataFrame({"DIM_1": ["a", "b"], "OBS_VALUE": ["1.0", "x"]}))):
            try:
                pds = PandasDataset(structure=schema, data=df)
            except Exception:  # noqa: BLE001  (pysdmx itself refuses the frame)
                continue
            monitored("run_sdmx", {"script": "DS_r <- DS_1 * 2;", "datasets": [pds]}, f"targeted:run_sdmx:{fname}", emit,
                      {"targeted": ["run_sdmx", fname]})
            # PandasDataset holds the caller's DataFrame: snapshot it explicitly
    except Exception as e:  # noqa: BLE001
        emit({"v": "inc", "why": f"run_sdmx targeted calls not built: {type(e).__name__}: {str(e)[:80]}"})
    # value domains / external routines / scalar values whose literals are not already of the declared python type
    good = structure()
    df0 = pd.DataFrame(base_cols, dtype=object)
    vds = [{"name": "VD_n", "type": "Number", "setlist": [1, 2.5, 4]}, {"name": "VD_i", "type": "Integer", "setlist": [1.0, 2.0, 3]},
           {"name": "VD_big", "type": "Number", "setlist": [9007199254740993, 1]}, {"name": "VD_s", "type": "String", "setlist": ["a", "b"]},
           {"name": "VD_b", "type": "Boolean", "setlist": [True, False]}]
    for vd in vds:
        for fname, kw in (("run", {"script": f"DS_r <- DS_1[filter Id_1 in {vd['name']}];" if vd["type"] in ("Integer", "Number") else "DS_r <- DS_1;", "data_structures": good,
                                   "datapoints": {"DS_1": df0.copy()}, "value_domains": vd}),
                          ("semantic_analysis", {"script": "DS_r <- DS_1;", "data_structures": good, "value_domains": [vd]}),
                          ("validate_value_domain", {"input": vd})):
            monitored(fname, kw, f"targeted:value-domain:{vd['name']}", emit, {"targeted": [fname, "value-domain", vd["name"]]})
    routine = {"name": "R1", "query": "SELECT Id_1, Id_2, Me_1 FROM DS_1"}
    monitored("run", {"script": 'DS_r <- eval(R1(DS_1) language "SQL" returns dataset {identifier<integer> Id_1, identifier<string> Id_2, measure<number> Me_1});',
                      "data_structures": good, "datapoints": {"DS_1": df0.copy()}, "external_routines": routine}, "targeted:external-routine", emit, {"targeted": ["run", "routine"]})
    for sv in ({"sc_1": 3}, {"sc_1": 3.0}, {"sc_1": "3"}, {"sc_1": None}):
        monitored("run", {"script": "DS_r <- DS_1[calc Me_9 := sc_1];", "data_structures": good, "datapoints": {"DS_1": df0.copy()}, "scalar_values": sv},
                  f"targeted:scalar-values:{type(sv['sc_1']).__name__}", emit, {"targeted": ["run", "scalar_values"]})
    # pysdmx structures with a partial / empty / full sdmx_mappings dict
    try:
        from pysdmx.model import Component, Components, Concept, Role, DataType
        from pysdmx.model.dataflow import DataStructureDefinition, Schema

        def sdmx(kind, sid):
            cs = Components([Component(id="DIM_1", required=True, role=Role.DIMENSION, concept=Concept(id="DIM_1"), local_dtype=DataType.STRING),
                             Component(id="OBS_VALUE", required=False, role=Role.MEASURE, concept=Concept(id="OBS_VALUE"), local_dtype=DataType.DOUBLE)])
            if kind == "schema":
                return Schema(context="datastructure", agency="MD", id=sid, version="1.0", components=cs)
            return DataStructureDefinition(id=sid, agency="MD", version="1.0", components=cs, name=sid)
        for kind in ("schema", "dsd"):
            a, b = sdmx(kind, "DSD_A"), sdmx(kind, "DSD_B")
            urn_a = getattr(a, "short_urn", None) or f"DataStructure=MD:DSD_A(1.0)"
            for label, mapping in (("partial", {urn_a: "DS_A"}), ("empty", {}), ("unrelated", {"DataStructure=MD:OTHER(1.0)": "DS_X"})):
                dfa = pd.DataFrame({"DIM_1": ["a", "b"], "OBS_VALUE": [1.0, 2.0]})
                for fname, kw in (("semantic_analysis", {"script": "DS_r <- DSD_B;", "data_structures": [a, b], "sdmx_mappings": mapping}),
                                  ("run", {"script": "DS_r <- DSD_B;", "data_structures": [a, b], "datapoints": {"DSD_B": dfa}, "sdmx_mappings": mapping})):
                    monitored(fname, kw, f"targeted:sdmx-mappings:{kind}:{label}", emit, {"targeted": [fname, "sdmx_mappings", kind, label]})
    except Exception as e:  # noqa: BLE001
        emit({"v": "inc", "why": f"sdmx_mappings targeted calls not built: {type(e).__name__}: {str(e)[:80]}"})


def run_shard(spec, emit):
    from vf import eng, rider
    rng = random.Random(f"C22-{spec['seed']}-{spec['shard']}")
    bud = eng.Budget(spec.get("budget_s", 100 if spec["tier"] == "quick" else 2400))
    if spec["shard"] % 4 == 0 or spec["tier"] == "thorough":
        targeted(rng, emit)
    for c in rider.corpus_slice(spec, quick_fraction=8, tag="C22"):
        if not bud.ok():
            emit({"v": "inc", "why": "cut by wall-clock budget"})
            break
        corpus_calls(c, emit, rng)


def replay(case, emit):
    rng = random.Random(0)
    if "corpus" in case:
        corpus_calls(case["corpus"], emit, rng)
    else:
        targeted(rng, emit)
