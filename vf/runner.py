"""Parent side of every check: shard orchestration, watchdogs, verdict aggregation,
known-finding classification, replay files, evidence file, VIOLATION / KNOWN-FINDING protocol.

A property module (vf.props.cNN) provides
    ID, LEVEL, RULE, ASSUMPTIONS, FLOORS = {"quick": (min_evals, min_distinct), "thorough": (...)}
    shards(tier, seed) -> list of JSON-able shard specs
    run_shard(spec, emit)            (executed in a worker subprocess; see vf.worker)
    optional: REQUIRED_COUNTERS = {"name": min_value}   counters that prove the monitor was reached
    optional: finish(agg) -> list of extra records       (parent side, after all shards)
Records emitted by workers (dicts):
    {"v": "held", "b": bucket, ["sample": ...]}
    {"v": "viol", "b": bucket, "mech": mechanism-key, "what": text, "case": replayable case}
    {"v": "inc",  "why": text}          inconclusive case (never folded into held/violated)
    {"v": "skip", "why": text}          generator rejected / baseline does not run
    {"v": "ctr",  "ctr": {name: n}}     counters, summed
    {"v": "info", "k": key, "val": any} free-form facts for the evidence (last writer wins)
"""
from __future__ import annotations

import hashlib
import importlib
import json
import os
import shutil
import subprocess
import sys
import time
from collections import Counter

VERIF = os.path.dirname(os.path.dirname(os.path.abspath(__file__)))
PY = os.environ.get("VERIF_PY", "/venv/bin/python")
NPROC = int(os.environ.get("VERIF_JOBS", "16"))
# Coverage floors (evaluations, distinct buckets) of the thorough tiers, calibrated on the sweep of 2026-09-22: about half of
# what each tier produced with a 600 s per-shard budget on a machine loaded by other jobs (default budget: 900 s). A module's
# own FLOORS["thorough"] applies where it is not listed here.
THOROUGH_FLOORS = {
    "C01": (6000, 300), "C02": (4500, 200), "C03": (4500, 150), "C04": (2000, 150), "C05": (2000, 80), "C06": (600, 250),
    "C07": (2000, 60), "C10": (2500, 25), "C12": (4000, 15), "C13": (3000, 150), "C14": (500, 15), "C15": (150, 60),
    "C16": (2500, 80), "C17": (1500, 20), "C18": (600, 80), "C19": (2500, 120), "C20": (3500, 120), "C21": (250, 150),
    "C26": (3000, 90), "C28": (1000, 80), "C32": (800, 60), "C33": (2000, 40),
}


def load_known():
    import glob
    out = []
    # known_findings.json plus per-property continuation files known_findings_<id>.json (same format, committed by hand)
    for p in sorted(glob.glob(os.path.join(VERIF, "known_findings*.json"))):
        with open(p) as f:
            d = json.load(f)
        out += [e for e in d.get("findings", []) if e.get("status", "open") == "open"]
    return out


def _worker_env(scratch, idx):
    env = dict(os.environ)
    env["PYTHONHASHSEED"] = "0"
    env["PYTHONPATH"] = os.pathsep.join([VERIF, os.path.join(VERIF, "shim")]
                                        + ([os.path.join(VERIF, ".deps")] if os.path.isdir(os.path.join(VERIF, ".deps")) else []))
    tmpd = os.path.join(scratch, f"tmp-{idx}")
    os.makedirs(tmpd, exist_ok=True)
    env["VTL_TEMP_DIRECTORY"] = tmpd
    env["VERIF_SCRATCH"] = os.path.join(scratch, f"w-{idx}")
    os.makedirs(env["VERIF_SCRATCH"], exist_ok=True)
    env["MEANINGFUL_DATA_VTLENGINE_VERIF"] = "1"
    env.setdefault("VTL_REPO", "/repo")
    env["PYTHONDONTWRITEBYTECODE"] = "1"
    # the documented knobs are part of several properties: start every worker from the defaults
    for k in ("VTL_THREADS", "VTL_MEMORY_LIMIT", "VTL_USE_IN_MEMORY_DB", "VTL_MAX_TEMP_DIRECTORY_SIZE",
              "OUTPUT_NUMBER_SIGNIFICANT_DIGITS", "COMPARISON_ABSOLUTE_THRESHOLD", "VTL_DUCKDB_DECIMAL_WIDTH"):
        if not os.environ.get("VERIF_KEEP_ENV"):
            env.pop(k, None)
    return env


def main(argv=None):
    argv = list(sys.argv[1:] if argv is None else argv)
    pid = argv[0]
    tier = "quick"
    replay = None
    i = 1
    while i < len(argv):
        if argv[i] == "--tier":
            tier = argv[i + 1]; i += 2
        elif argv[i] == "--replay":
            replay = argv[i + 1]; i += 2
        else:
            i += 1
    tier = os.environ.get("VERIF_TIER", tier) if "--tier" not in argv else tier
    seed = int(os.environ.get("VERIF_SEED", "0"))
    mod = importlib.import_module(f"vf.props.{pid.lower()}")
    t0 = time.time()
    scratch = os.path.join(VERIF, ".scratch", f"{pid}-{os.getpid()}")
    shutil.rmtree(scratch, ignore_errors=True)
    os.makedirs(scratch, exist_ok=True)
    try:
        if replay:
            return _replay(mod, pid, replay, scratch)
        return _check(mod, pid, tier, seed, scratch, t0)
    finally:
        shutil.rmtree(scratch, ignore_errors=True)
        try:
            os.rmdir(os.path.join(VERIF, ".scratch"))
        except OSError:
            pass


def _replay(mod, pid, path, scratch):
    with open(path) as f:
        rp = json.load(f)
    spec = {"replay": rp["case"], "seed": rp.get("seed", 0), "tier": rp.get("tier", "quick")}
    sp = os.path.join(scratch, "replay-spec.json")
    out = os.path.join(scratch, "replay-out.jsonl")
    with open(sp, "w") as f:
        json.dump(spec, f)
    p = subprocess.run([PY, "-m", "vf.worker", pid, sp, out], env=_worker_env(scratch, 0), timeout=3600)
    viol = 0
    if os.path.exists(out):
        for line in open(out):
            r = json.loads(line)
            if r.get("v") in ("viol", "held", "inc"):
                print(json.dumps(r, default=str)[:4000])
            if r.get("v") == "viol":
                viol += 1
    print(f"replay: worker exit {p.returncode}, violations {viol}")
    return 1 if viol else 0


def _check(mod, pid, tier, seed, scratch, t0):
    shutil.rmtree(os.path.join(VERIF, "replays", pid), ignore_errors=True)   # replay files belong to one run
    specs = mod.shards(tier, seed)
    for s in specs:
        s.setdefault("seed", seed)
        s.setdefault("tier", tier)
    budget = getattr(mod, "SHARD_TIMEOUT", {"quick": 600, "thorough": 5400})[tier]
    pending = list(enumerate(specs))
    running = {}
    outs = []
    shard_status = Counter()
    stderr_tail = []
    while pending or running:
        while pending and len(running) < NPROC:
            idx, spec = pending.pop(0)
            sp = os.path.join(scratch, f"spec-{idx}.json")
            out = os.path.join(scratch, f"out-{idx}.jsonl")
            err = os.path.join(scratch, f"err-{idx}.txt")
            with open(sp, "w") as f:
                json.dump(spec, f)
            ef = open(err, "w")
            p = subprocess.Popen([PY, "-m", "vf.worker", pid, sp, out], env=_worker_env(scratch, idx),
                                 stdout=ef, stderr=ef, cwd=scratch)
            running[idx] = (p, time.time(), out, err, ef)
        time.sleep(0.05)
        for idx in list(running):
            p, st, out, err, ef = running[idx]
            rc = p.poll()
            if rc is None and time.time() - st > budget:
                p.kill(); p.wait(); rc = "timeout"
            if rc is None:
                continue
            ef.close()
            del running[idx]
            outs.append(out)
            if rc == 0:
                shard_status["ok"] += 1
            else:
                shard_status[f"rc={rc}"] += 1
                try:
                    stderr_tail.append(open(err).read()[-1500:])
                except OSError:
                    pass

    # ---- aggregate ------------------------------------------------------------------------
    held = viol = inc = skip = 0
    buckets = Counter()
    ctr = Counter()
    info = {}
    samples = []
    viols = []
    skip_why = Counter()
    inc_why = Counter()
    shards_done = 0
    for out in outs:
        if not os.path.exists(out):
            continue
        for line in open(out):
            try:
                r = json.loads(line)
            except ValueError:
                continue
            v = r.get("v")
            if v == "held":
                held += 1
                buckets[r.get("b", "")] += 1
                if "sample" in r and len(samples) < 12:
                    samples.append(r["sample"])
            elif v == "viol":
                viol += 1
                buckets[r.get("b", "")] += 1
                viols.append(r)
            elif v == "inc":
                inc += 1
                inc_why[str(r.get("why", ""))[:80]] += 1
            elif v == "skip":
                skip += 1
                skip_why[str(r.get("why", ""))[:80]] += 1
            elif v == "ctr":
                ctr.update(r.get("ctr", {}))
            elif v == "info":
                info[r["k"]] = r["val"]
            elif v == "done":
                shards_done += 1
    if hasattr(mod, "finish"):
        for r in mod.finish({"held": held, "viols": viols, "ctr": ctr, "info": info, "tier": tier}) or []:
            if r["v"] == "viol":
                viol += 1; viols.append(r)
            elif r["v"] == "held":
                held += 1; buckets[r.get("b", "")] += 1

    known = [k for k in load_known() if k["property"] == pid]
    known_hit = {}
    unlisted = {}
    for r in viols:
        mech = r.get("mech", "unclassified")
        k = next((k for k in known if k["mechanism"] == mech), None)
        if k is not None:
            known_hit.setdefault(mech, (k, r))
        else:
            unlisted.setdefault(mech, r)
    rdir = os.path.join(VERIF, "replays", pid)
    lines = []
    for mech, (k, r) in sorted(known_hit.items()):
        lines.append(f"KNOWN-FINDING: property={pid} {mech}: {k.get('what', '')}")
        samples.append({"known_finding": mech, "what": r.get("what"), "case": _short(r.get("case"))})
    for mech, r in sorted(unlisted.items()):
        os.makedirs(rdir, exist_ok=True)
        body = {"property": pid, "mechanism": mech, "what": r.get("what"), "case": r.get("case"),
                "seed": seed, "tier": tier}
        h = hashlib.sha1(json.dumps(body, sort_keys=True, default=str).encode()).hexdigest()[:12]
        path = os.path.join(rdir, f"{h}.json")
        with open(path, "w") as f:
            json.dump(body, f, indent=1, default=str)
        lines.append(f"VIOLATION property={pid} replay={path}")
        lines.append(f"  mechanism={mech} what={str(r.get('what'))[:300]}")

    evals = held + viol
    fe, fd = THOROUGH_FLOORS.get(pid, mod.FLOORS[tier]) if tier == "thorough" else mod.FLOORS[tier]
    inconclusive = []
    if evals < fe:
        inconclusive.append(f"evaluations {evals} < floor {fe}")
    if len(buckets) < fd:
        inconclusive.append(f"distinct buckets {len(buckets)} < floor {fd}")
    for name, mn in getattr(mod, "REQUIRED_COUNTERS", {}).items():
        if ctr.get(name, 0) < mn:
            inconclusive.append(f"monitor counter {name}={ctr.get(name, 0)} < {mn}")
    if shards_done < len(specs):
        inconclusive.append(f"only {shards_done}/{len(specs)} shards completed: {dict(shard_status)}")

    cov = {
        "evaluations": evals,
        "distinct_nontrivial": len(buckets),
        "rule": mod.RULE,
        "samples": samples[:16] or [{"note": "no sample recorded"}],
        "held": held,
        "violating_evaluations": viol,
        "inconclusive_cases": inc,
        "skipped_cases": skip,
        "skip_reasons": dict(skip_why.most_common(12)),
        "inconclusive_reasons": dict(inc_why.most_common(12)),
        "counters": dict(ctr),
        "buckets_top": dict(buckets.most_common(40)),
        "shards": {"planned": len(specs), "completed": shards_done, "status": dict(shard_status)},
        "known_findings_reproduced": sorted(known_hit),
        "unlisted_mechanisms": sorted(unlisted),
        "verdict": ("violated" if unlisted else ("inconclusive" if inconclusive else "held-on-observed")),
        "inconclusive_because": inconclusive,
    }
    cov.update(info)
    if getattr(mod, "EXHAUSTIVE", False) and not inconclusive:
        cov["exhaustive"] = True
    ev = {
        "property_id": pid, "tier": tier, "seed": seed, "level": mod.LEVEL, "coverage": cov,
        "assumptions": list(getattr(mod, "ASSUMPTIONS", [])) + [
            "parse trees come from /verif/shim (pure-Python interpreter of the repository's Vtl.g4/VtlTokens.g4/bindings.cpp tables), not from the compiled ANTLR parser, which cannot be built offline",
        ],
        "wall_s": round(time.time() - t0, 2), "violations": len(unlisted),
    }
    os.makedirs(os.path.join(VERIF, "evidence"), exist_ok=True)
    with open(os.path.join(VERIF, "evidence", f"{pid}.json"), "w") as f:
        json.dump(ev, f, indent=1, default=str)
    for ln in lines:
        print(ln)
    print(f"{pid} {tier} seed={seed}: evaluations={evals} held={held} violating={viol} (unlisted mechanisms "
          f"{len(unlisted)}, known {len(known_hit)}) inconclusive={inc} skipped={skip} buckets={len(buckets)} "
          f"shards={shards_done}/{len(specs)} wall={ev['wall_s']}s")
    if unlisted:
        return 1
    if inconclusive:
        print(f"INCONCLUSIVE property={pid} " + "; ".join(inconclusive))
        for t in stderr_tail[:3]:
            print(t)
        return 2
    return 0


def _short(x, n=1500):
    s = json.dumps(x, default=str)
    return x if len(s) <= n else s[:n] + "…"


if __name__ == "__main__":
    sys.exit(main())
