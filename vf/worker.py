"""Worker side: runs one shard of one property in its own process and streams JSONL records."""
import importlib
import json
import os
import sys
import traceback


def main():
    pid, spec_path, out_path = sys.argv[1:4]
    with open(spec_path) as f:
        spec = json.load(f)
    mod = importlib.import_module(f"vf.props.{pid.lower()}")
    out = open(out_path, "a", buffering=1)

    def emit(rec):
        out.write(json.dumps(rec, default=str) + "\n")

    try:
        if "replay" in spec:
            mod.replay(spec["replay"], emit)
        else:
            mod.run_shard(spec, emit)
        emit({"v": "done"})
    except BaseException:
        traceback.print_exc()
        emit({"v": "inc", "why": "worker crashed: " + traceback.format_exc()[-300:]})
        out.close()
        os._exit(3)
    out.close()
    sys.stdout.flush()
    sys.stderr.flush()
    os._exit(0)  # never hang on lingering engine threads


if __name__ == "__main__":
    main()
