"""Corpus-rider helpers shared by the metamorphic/rider properties."""
import random


def corpus_slice(spec, quick_fraction=4, big=False, pred=None, tag=""):
    from vf import corpus
    cs = [c for c in corpus.scan() if big or not c["area"].startswith("BigProjects")]
    if pred:
        cs = [c for c in cs if pred(c)]
    mine = [c for i, c in enumerate(cs) if i % spec["nshards"] == spec["shard"]]
    if spec["tier"] == "quick" and quick_fraction > 1:
        rng = random.Random(f"slice-{tag}-{spec['seed']}-{spec['shard']}")
        rng.shuffle(mine)
        mine = mine[:max(1, len(mine) // quick_fraction)]
    return mine


def baseline(c, emit, **run_kw):
    """(kw, result) for a corpus case that runs, else None (skip emitted)."""
    from vf import corpus, eng
    try:
        kw = corpus.run_kwargs(c)
    except Exception as e:  # noqa: BLE001
        emit({"v": "skip", "why": f"corpus load {type(e).__name__}"})
        return None
    status, res = eng.call(eng.run, **kw, **run_kw)
    if status == "exc":
        emit({"v": "skip", "why": "corpus case rejected: " + type(res).__name__})
        return None
    return kw, res
