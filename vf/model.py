"""Reference semantics for the element-wise VTL operators, written from the VTL reference manual and the
property statements — never from the engine. Three-valued: a point the manual leaves open (or where exact and
floating arithmetic may legitimately disagree) evaluates to UNSPEC and never decides a verdict.

Values: None (null), bool, int, Fraction (exact numbers), float (inexact numbers), str.
Expression trees: ("c", name) | ("k", value, type) | ("op", name, [children]) | ("set", [constants])
"""
from __future__ import annotations

import math
from decimal import Decimal
from fractions import Fraction


class _Sent:
    def __init__(self, n):
        self.n = n

    def __repr__(self):
        return self.n


ERR = _Sent("ERR")        # VTL defines a run-time error here
UNSPEC = _Sent("UNSPEC")  # not decided by the specification / numerically unsafe


def is_num(v):
    return isinstance(v, (int, Fraction, float)) and not isinstance(v, bool)


def to_frac(v):
    if isinstance(v, float):
        return Fraction(Decimal(repr(v)))
    return Fraction(v)


def exact(v):
    return isinstance(v, (int, Fraction)) and not isinstance(v, bool)


def as_float(v):
    return float(v)


def num_in(v):
    """input cell -> model number (floats from the pools are decimal literals: exact)"""
    if isinstance(v, bool) or v is None:
        return v
    if isinstance(v, float):
        return Fraction(Decimal(repr(v)))
    return v


def out(v):
    """model value -> comparable python value"""
    if isinstance(v, Fraction):
        return float(v)
    return v


def _near(a, b, rel=1e-7):
    a, b = float(a), float(b)
    return abs(a - b) <= rel * max(1.0, abs(a), abs(b))


def _strict(args):
    for a in args:
        if a is ERR:
            return ERR
    for a in args:
        if a is UNSPEC:
            return UNSPEC
    return None


def _round_half(x, n, mode):
    q = Fraction(10) ** n
    y = to_frac(x) * q
    fl = math.floor(y)
    if mode == "trunc":
        r = fl if y >= 0 else math.ceil(y)
        return Fraction(r) / q
    rem = y - fl
    if rem == Fraction(1, 2):
        return UNSPEC          # tie: rounding mode not fixed by the property
    r = fl + (1 if rem > Fraction(1, 2) else 0)
    return Fraction(r) / q


def _boundary_unsafe(x, n=0):
    """inexact value sitting on a rounding boundary at n decimals"""
    if exact(x):
        return False
    y = float(x) * (10 ** n)
    return abs(y - round(y)) < 1e-6 or abs(abs(y - math.floor(y)) - 0.5) < 1e-6


def apply(op, a):
    """scalar semantics; a = list of evaluated arguments"""
    s = _strict(a) if op not in ("and", "or", "if", "nvl", "case") else None
    if s is not None:
        return s
    # ---- boolean (Kleene) -----------------------------------------------------------------
    if op in ("and", "or"):
        x, y = a
        dom = False if op == "and" else True
        if x is ERR or y is ERR:
            other = y if x is ERR else x
            return UNSPEC if other is dom else ERR
        if x is UNSPEC or y is UNSPEC:
            other = y if x is UNSPEC else x
            return dom if other is dom else UNSPEC
        if x is dom or y is dom:
            return dom
        if x is None or y is None:
            return None
        return (x and y) if op == "and" else (x or y)
    if op == "xor":
        x, y = a
        return None if x is None or y is None else (x != y)
    if op == "not":
        return None if a[0] is None else (not a[0])
    # ---- conditional -----------------------------------------------------------------------
    if op == "if":
        c, t, e = a
        if c is ERR or c is UNSPEC:
            return c
        taken, other = (t, e) if c is True else (e, t)
        if taken is ERR or taken is UNSPEC:
            return taken
        return UNSPEC if other is ERR else taken
    if op == "case":
        # a = [c1, v1, c2, v2, ..., else]; whether the first or the last true condition wins when several hold is
        # not fixed by the property: more than one true condition (with different values) is UNSPEC
        pairs = list(zip(a[0:-1:2], a[1:-1:2]))
        if any(c is ERR for c, _ in pairs):
            return ERR
        if any(c is UNSPEC for c, _ in pairs):
            return UNSPEC
        hits = [v for c, v in pairs if c is True]
        others = [v for c, v in pairs if c is not True] + ([a[-1]] if hits else [])
        if not hits:
            v = a[-1]
        else:
            if any(h is ERR or h is UNSPEC for h in hits):
                return hits[0] if len(hits) == 1 else UNSPEC
            if any(repr(h) != repr(hits[0]) for h in hits[1:]):
                return UNSPEC
            v = hits[0]
        if v is ERR or v is UNSPEC:
            return v
        if any(o is ERR for o in others) or (not hits and any(x is ERR for _, x in pairs)):
            return UNSPEC
        return v
    if op == "nvl":
        x, y = a
        if x is ERR or x is UNSPEC:
            return x
        if x is not None:
            return UNSPEC if y is ERR else x
        return y
    if op == "isnull":
        return a[0] is None
    # ---- everything below: null in -> null out ----------------------------------------------
    if op in ("/", "mod", "log") and len(a) == 2 and a[0] is None and exact(a[1]) and a[1] == 0:
        return UNSPEC          # null / 0: "null propagates" and "division by zero is an error" both apply
    if op in ("ln", "sqrt", "log") and any(x is None for x in a) and not all(x is None for x in a):
        return UNSPEC if any(is_num(x) and x <= 0 for x in a) else None
    if any(x is None for x in a):
        return None
    if op in ("+", "-", "*"):
        x, y = a
        if exact(x) and exact(y):
            r = x + y if op == "+" else (x - y if op == "-" else x * y)
            if isinstance(r, Fraction) and abs(r) >= Fraction(10) ** 17:
                return UNSPEC
            if isinstance(r, int) and abs(r) >= 2 ** 62:
                return UNSPEC
            return r
        x, y = float(x), float(y)
        return x + y if op == "+" else (x - y if op == "-" else x * y)
    if op == "/":
        x, y = a
        if (exact(y) and y == 0) or (not exact(y) and abs(float(y)) < 1e-9):
            return ERR if exact(y) else UNSPEC
        if abs(float(y)) < 1e-4:
            return UNSPEC
        return float(x) / float(y)
    if op == "neg":
        return -a[0]
    if op == "pos":
        return a[0]
    if op in ("=", "<>", "<", ">", "<=", ">="):
        x, y = a
        if is_num(x) and is_num(y):
            if not (exact(x) and exact(y)) and _near(x, y):
                return UNSPEC
            x, y = to_frac(x) if exact(x) else float(x), to_frac(y) if exact(y) else float(y)
        elif type(x) is not type(y):
            return UNSPEC
        return {"=": x == y, "<>": x != y, "<": x < y, ">": x > y, "<=": x <= y, ">=": x >= y}[op]
    if op == "between":
        x, lo, hi = a
        r1 = apply(">=", [x, lo])
        r2 = apply("<=", [x, hi])
        if r1 is UNSPEC or r2 is UNSPEC:
            return UNSPEC
        return r1 and r2
    if op in ("in", "not_in"):
        x, coll = a
        hit = False
        for c in coll:
            r = apply("=", [x, c])
            if r is UNSPEC:
                return UNSPEC
            hit = hit or r
        return hit if op == "in" else (not hit)
    # ---- numeric functions --------------------------------------------------------------------
    if op == "abs":
        return abs(a[0])
    if op in ("ceil", "floor"):
        x = a[0]
        if _boundary_unsafe(x):
            return UNSPEC
        return math.ceil(x) if op == "ceil" else math.floor(x)
    if op == "exp":
        x = float(a[0])
        return UNSPEC if abs(x) > 50 else math.exp(x)
    if op == "ln":
        x = a[0]
        if x <= 0:
            return ERR if exact(x) or float(x) < -1e-9 else UNSPEC
        return math.log(float(x))
    if op == "sqrt":
        x = a[0]
        if x < 0:
            return ERR if exact(x) or float(x) < -1e-9 else UNSPEC
        return math.sqrt(float(x))
    if op in ("round", "trunc"):
        x, n = a if len(a) == 2 else (a[0], 0)
        if not isinstance(n, int) or n < 0 or n > 8:
            return UNSPEC
        if _boundary_unsafe(x, n):
            return UNSPEC
        if not exact(x):
            x = Fraction(Decimal(repr(float(x))))
        return _round_half(x, n, op)
    if op == "mod":
        x, y = a
        if not (exact(x) and exact(y)) or y <= 0 or x < 0:
            return UNSPEC      # sign conventions / mod by zero are left open
        return to_frac(x) - to_frac(y) * math.floor(to_frac(x) / to_frac(y))
    if op == "power":
        x, y = a
        if not (isinstance(y, int) and 0 <= y <= 4) or abs(float(x)) > 1e4:
            return UNSPEC
        if exact(x):
            return to_frac(x) ** y if not isinstance(x, int) else x ** y
        return float(x) ** y
    if op == "log":
        x, b = a
        if (exact(x) and x <= 0) or (exact(b) and b <= 0):
            return ERR
        if not exact(x) and float(x) < 1e-9 or not exact(b) and float(b) < 1e-9:
            return UNSPEC
        if _near(b, 1):
            return UNSPEC
        return math.log(float(x)) / math.log(float(b))
    # ---- strings --------------------------------------------------------------------------------
    if op == "||":
        return a[0] + a[1]
    if op == "length":
        return len(a[0])
    if op == "upper":
        return a[0].upper() if a[0].isascii() else UNSPEC
    if op == "lower":
        return a[0].lower() if a[0].isascii() else UNSPEC
    if op == "trim":
        return a[0].strip(" ")
    if op == "ltrim":
        return a[0].lstrip(" ")
    if op == "rtrim":
        return a[0].rstrip(" ")
    if op == "substr":
        s = a[0]
        start = a[1] if len(a) > 1 else 1
        ln = a[2] if len(a) > 2 else None
        if start < 1 or (ln is not None and ln < 0):
            return UNSPEC
        return s[start - 1:] if ln is None else s[start - 1:start - 1 + ln]
    if op == "replace":
        s, p1 = a[0], a[1]
        p2 = a[2] if len(a) > 2 else ""
        if p1 == "":
            return UNSPEC
        return s.replace(p1, p2)
    if op == "instr":
        s, pat = a[0], a[1]
        start = a[2] if len(a) > 2 else 1
        occ = a[3] if len(a) > 3 else 1
        if start < 1 or occ < 1 or pat == "":
            return UNSPEC
        pos = start - 1
        for _ in range(occ):
            i = s.find(pat, pos)
            if i < 0:
                return 0
            pos = i + 1
        return pos
    raise ValueError(f"model: unknown operator {op}")


def ev(node, env):
    k = node[0]
    if k == "c":
        return env[node[1]]
    if k == "k":
        return num_in(node[1])
    if k == "set":
        return [num_in(c[1]) for c in node[1]]
    return apply(node[1], [ev(ch, env) for ch in node[2]])


# ------------------------------------------------------------------------------------------------
# rendering
# ------------------------------------------------------------------------------------------------
_INFIX = {"+", "-", "*", "/", "=", "<>", "<", ">", "<=", ">=", "and", "or", "xor", "||"}


def vtl(node):
    from vf.gen import lit
    k = node[0]
    if k == "c":
        return node[1]
    if k == "k":
        return lit(node[1], node[2])
    if k == "set":
        return "{" + ", ".join(lit(c[1], c[2]) for c in node[1]) + "}"
    op, ch = node[1], node[2]
    if op in _INFIX:
        return f"({vtl(ch[0])} {op} {vtl(ch[1])})"
    if op == "neg":
        return f"(- {vtl(ch[0])})"
    if op == "pos":
        return f"(+ {vtl(ch[0])})"
    if op == "not":
        return f"(not {vtl(ch[0])})"
    if op == "if":
        return f"(if {vtl(ch[0])} then {vtl(ch[1])} else {vtl(ch[2])})"
    if op == "case":
        parts = " ".join(f"when {vtl(c)} then {vtl(v)}" for c, v in zip(ch[0:-1:2], ch[1:-1:2]))
        return f"(case {parts} else {vtl(ch[-1])})"
    if op in ("in", "not_in"):
        return f"({vtl(ch[0])} {op} {vtl(ch[1])})"
    return f"{op}({', '.join(vtl(c) for c in ch)})"
