"""Input-side generator shared by C18, C19, C20: structures, tables of cell texts with a three-valued validity
verdict per cell (valid / invalid / unspecified) written from docs/data_types.rst and the calendar, table-level
violations, and materialisation of one table as CSV / DataFrame (string, 'string' dtype, native) / Parquet."""
import calendar
import datetime
import os
import random
import re

V, I, U = "valid", "invalid", "unspecified"

# (cell text, verdict, canonical value or None when only type conformance is checked)
CELLS = {
    "Integer": [("42", V, 42), ("0", V, 0), ("-7", V, -7), ("123456789012", V, 123456789012), ("abc", I, None), ("1.5", I, None), ("0x1A", I, None),
                ("12a", I, None), ("--3", I, None), ("1 2", I, None), ("+42", U, None), ("7.0", U, None), ("1e2", U, None), (" 5", U, None), ("1_000", U, None),
                ("007", U, None), ("9223372036854775808", U, None)],
    "Number": [("3.14", V, 3.14), ("1e5", V, 100000.0), ("42", V, 42.0), ("-0.5", V, -0.5), ("0", V, 0.0), ("2.50", V, 2.5), ("abc", I, None), ("1,5", I, None),
               ("1.2.3", I, None), ("1e", I, None), ("--1", I, None), (".5", U, None), ("5.", U, None), ("inf", U, None), ("nan", U, None), ("0x10", U, None),
               (" 1.5", U, None), ("+1.5", U, None), ("1E5", U, None), ("2.675", V, 2.675), ("0.1", V, 0.1), ("1.23456789015", V, None), ("1234.000000125", V, None)],
    "Boolean": [("true", V, True), ("false", V, False), ("True", V, True), ("FALSE", V, False), ("TRUE", V, True), ("1", V, True), ("0", V, False),
                ("yes", I, None), ("2", I, None), ("abc", I, None), ("t", I, None), ("-1", I, None), ("1.0", U, None), ("0.0", U, None), (" true", U, None)],
    "Date": [("2020-01-15", V, "2020-01-15"), ("2020-02-29", V, "2020-02-29"), ("1800-01-01", V, "1800-01-01"), ("9999-12-31", V, "9999-12-31"),
             ("2020-01-15 10:30:00", V, "2020-01-15T10:30:00"), ("2020-01-15T10:30:00", V, "2020-01-15T10:30:00"), ("2020-01-15T10:30:00Z", V, "2020-01-15T10:30:00"),
             ("2020-01-15T10:30:00+02:00", V, "2020-01-15T10:30:00"), ("2020-13-01", I, None), ("2021-02-29", I, None), ("2020-04-31", I, None), ("2020-01-15T10:30", I, None),
             ("2020-01-15 25:00:00", I, None), ("15/01/2020", I, None), ("20200115", I, None), ("1799-12-31", I, None), ("10000-01-01", I, None), ("abc", I, None),
             ("2021-2-29", I, None), ("2020-4-31", I, None), ("1900-02-29", I, None), ("2000-02-29", V, "2000-02-29"),
             ("2020-1-5", U, None), ("2020-01-15X10:30:00", I, None), ("2020-01-15T10:30:00.123456", U, None), ("2020-01-15 00:00:00", U, None), ("2020-01", U, None)],
    "Time_Period": [("2020", V, "2020"), ("2020A", V, "2020"), ("2020-A1", V, "2020"), ("2020S1", V, "2020S1"), ("2020-S2", V, "2020S2"), ("2020Q1", V, "2020Q1"),
                    ("2020-Q4", V, "2020Q4"), ("2020M1", V, "2020M1"), ("2020M01", V, "2020M1"), ("2020-01", V, "2020M1"), ("2020-1", V, "2020M1"),
                    ("2020-M01", V, "2020M1"), ("2020-M1", V, "2020M1"), ("2020M12", V, "2020M12"), ("2020W1", V, "2020W1"), ("2020W01", V, "2020W1"),
                    ("2020-W01", V, "2020W1"), ("2020W53", V, "2020W53"), ("2020D1", V, "2020D1"), ("2020D01", V, "2020D1"), ("2020D001", V, "2020D1"),
                    ("2020D366", V, "2020D366"), ("2020-01-01", V, "2020D1"), ("2020-12-31", V, "2020D366"), ("1800", V, "1800"), ("9999", V, "9999"),
                    ("2020-M13", I, None), ("2020M13", I, None), ("2020M0", I, None), ("2020-13", I, None), ("2020-Q5", I, None), ("2020Q0", I, None), ("2020-S3", I, None),
                    ("2020W54", I, None), ("2020-W54", I, None), ("2020W0", I, None), ("2021D366", I, None), ("2020D367", I, None), ("2020D0", I, None),
                    ("1900D366", I, None), ("2100-D366", I, None), ("1900-02-29", I, None), ("2000D366", V, "2000D366"), ("2400D366", V, "2400D366"), ("2000-02-29", V, "2000D60"),
                    ("2021-02-29", I, None), ("1799", I, None), ("10000", I, None), ("1799Q1", I, None), ("abc", I, None), ("2020X1", I, None), ("20", I, None),
                    ("2021W53", U, None), ("2020-W1", U, None), ("2020-D1", U, None), ("2020-D001", U, None), ("2020-Q01", U, None), ("2020Q01", U, None), ("2020 Q1", U, None),
                    ("2020q1", U, None), ("2020-A", U, None), ("2020A1", U, None)],
    "Time": [("2020-01-01/2020-12-31", V, "2020-01-01/2020-12-31"), ("2020-01-01/2020-01-01", V, "2020-01-01/2020-01-01"), ("2020", V, "2020-01-01/2020-12-31"),
             ("2020-02", V, "2020-02-01/2020-02-29"), ("2021-02", V, "2021-02-01/2021-02-28"), ("2020-12-31/2020-01-01", I, None), ("abc", I, None), ("2020-13", I, None),
             ("2020-01-01/", I, None), ("/2020-01-01", I, None), ("2020-01-01/2020-13-01", I, None), ("2020-02-30/2020-03-01", I, None),
             ("2020-01-01", U, None), ("2020-01-01T00:00:00/2020-12-31T00:00:00", U, None), ("2020Q1", U, None), ("1799", U, None)],
    "Duration": [("A", V, "A"), ("S", V, "S"), ("Q", V, "Q"), ("M", V, "M"), ("W", V, "W"), ("D", V, "D"), ("X", I, None), ("AA", I, None), ("1", I, None), ("abc", I, None),
                 ("a", U, None), ("P1Y", U, None), ("P3M", U, None), (" A", U, None)],
    "String": [("hello", V, "hello"), ("a b", V, "a b"), ("ñandú 日本", V, "ñandú 日本"), ("42", V, "42"), ("true", V, "true"), ("2020-01-01", V, "2020-01-01"),
               ("comma,inside", V, "comma,inside"), ("semi;colon", V, "semi;colon"), ("x" * 200, V, "x" * 200), (" padded ", U, None), ("null", U, None), ("NA", U, None)],
}
ID_OK = {"Integer", "String", "Date", "Time_Period", "Number", "Boolean", "Time", "Duration"}


def make_table(rng, force_valid=None):
    """One structure + table. Returns a case dict; exactly which violations are present is recorded."""
    t = rng.choice(list(CELLS))
    role = rng.choice(["Measure", "Measure", "Attribute", "Identifier"]) if t in ("Integer", "String", "Date", "Time_Period") else rng.choice(["Measure", "Attribute"])
    nullable = role != "Identifier" and rng.random() < 0.8
    comps = [["Id_1", "Integer", "Identifier", False], ["X", t, role, nullable]]
    if rng.random() < 0.4:
        comps.append(["Me_z", "Number", "Measure", True])
    n = rng.randint(1, 5)
    want = force_valid if force_valid is not None else rng.random() < 0.45
    cells = []
    pool = CELLS[t]
    valid_pool = [c for c in pool if c[1] == V]
    for i in range(n):
        cells.append(rng.choice(valid_pool))
    viol = []
    if not want:
        kind = rng.choice(["cell", "cell", "cell", "unspecified-cell", "dup", "nullid", "missing-id-col", "missing-nonnull-col", "null-in-nonnull", "dup-by-spelling"])
        if kind == "dup-by-spelling":
            # the same key written in two documented spellings (only Time_Period has several documented spellings)
            if t == "Time_Period":
                role, nullable = "Identifier", False
                comps[1][2], comps[1][3] = role, False
                a, b = rng.choice([(("2020M1", V, "2020M1"), ("2020-01", V, "2020M1")), (("2020Q1", V, "2020Q1"), ("2020-Q1", V, "2020Q1")), (("2020M01", V, "2020M1"), ("2020-M1", V, "2020M1")),
                                   (("2020D1", V, "2020D1"), ("2020-01-01", V, "2020D1")), (("2020", V, "2020"), ("2020A", V, "2020")), (("2020W1", V, "2020W1"), ("2020-W01", V, "2020W1"))])
                cells = [a, b] + [c for c in cells[2:] if c[2] not in (a[2],)]
                n = len(cells)
                viol.append("dup-by-spelling")
            else:
                kind = "dup"
        if kind == "dup-by-spelling":
            pass
        elif kind == "cell":
            bad = rng.choice([c for c in pool if c[1] == I] or valid_pool)
            cells[rng.randrange(n)] = bad
            if bad[1] == I:
                viol.append("invalid-cell")
        elif kind == "unspecified-cell":
            u = [c for c in pool if c[1] == U]
            if u:
                cells[rng.randrange(n)] = rng.choice(u)
                viol.append("unspecified-cell")
        else:
            viol.append(kind)
    if "missing-nonnull-col" in viol:
        if role == "Identifier":
            viol = ["missing-id-col"]
        else:
            comps[1][3] = nullable = False
    free = [i for i in range(n) if cells[i][1] == V]
    if nullable and rng.random() < 0.3 and "null-in-nonnull" not in viol and len(free) > 1:
        cells[rng.choice(free)] = ("", V, None)          # null cell (empty text) in a nullable non-String column
        if t == "String":
            cells = [c if c[0] != "" else ("hello", V, "hello") for c in cells]
    ids = list(range(1, n + 1))
    if role == "Identifier":
        # identifier column of type t: its values must be distinct too
        seen, out = set(), []
        for c in cells:
            if c[0] in seen and c[1] == V:
                c = next((x for x in valid_pool if x[0] not in seen and (x[2] is None or all(x[2] != y[2] for y in out))), c)
            seen.add(c[0])
            out.append(c)
        cells = out
        if "dup-by-spelling" not in viol and len({repr(c[2]) for c in cells if c[1] == V and c[2] is not None}) < len([c for c in cells if c[1] == V and c[2] is not None]):
            viol.append("unspecified-cell")     # same value under two spellings by accident (distinct Id_1): not a duplicate key
    rows = [[ids[i], cells[i][0]] + ([round(rng.uniform(-5, 5), 2)] if len(comps) > 2 else []) for i in range(n)]
    if "dup-by-spelling" in viol:
        rows[1][0] = rows[0][0]
    if "dup" in viol:
        if n < 2:
            rows.append(list(rows[0]))
            cells.append(cells[0])
        else:
            rows[1][0] = rows[0][0]
            if role == "Identifier":
                rows[1][1] = rows[0][1]
                cells[1] = cells[0]
    if "nullid" in viol:
        rows[0][0] = ""
    if "null-in-nonnull" in viol:
        if nullable or role == "Identifier":
            comps[1][3] = False
        rows[0][1] = ""
        cells[0] = ("", V, None)
        if t == "String":
            viol = ["unspecified-cell"]       # empty string vs null in a String column is not decided by the docs
    if role != "Identifier" and n == 1 and not set(viol) - {"invalid-cell", "unspecified-cell"} and rng.random() < 0.5:
        # dataset without identifiers: a single datapoint, the identifier column is dropped from structure and table
        comps = comps[1:]
        rows = [r[1:] for r in rows]
        return {"type": t, "role": role, "comps": comps, "rows": rows, "cells": [[c[0], c[1], c[2]] for c in cells], "viol": viol, "dwi": True}
    return {"type": t, "role": role, "comps": comps, "rows": rows, "cells": [[c[0], c[1], c[2]] for c in cells], "viol": viol}


def cell_sweep():
    """Deterministic part of the workload: every cell of CELLS once, as the second row of a two-row table (first row valid)."""
    out = []
    for t, pool in CELLS.items():
        first = next(c for c in pool if c[1] == V)
        for c in pool:
            if c is first:
                continue
            comps = [["Id_1", "Integer", "Identifier", False], ["X", t, "Measure", True]]
            viol = ["invalid-cell"] if c[1] == I else ["unspecified-cell"] if c[1] == U else []
            out.append({"type": t, "role": "Measure", "comps": comps, "rows": [[1, first[0]], [2, c[0]]], "cells": [list(first), list(c)], "viol": viol})
    return out


def verdict(case):
    v = case["viol"]
    if any(x in v for x in ("invalid-cell", "dup", "dup-by-spelling", "nullid", "missing-id-col", "missing-nonnull-col", "null-in-nonnull")):
        return I if "unspecified-cell" not in v else I
    if "unspecified-cell" in v or any(c[1] == U for c in case["cells"]):
        return U
    return V


def structure(case):
    from vf import eng
    return eng.structures(eng.mkds("DS_1", [tuple(c) for c in case["comps"]]))


def columns(case):
    cols = [c[0] for c in case["comps"]]
    if "missing-id-col" in case["viol"]:
        cols = [c for c in cols if c != "Id_1"]
    if "missing-nonnull-col" in case["viol"]:
        cols = [c for c in cols if c != "X"]
    return cols


def table(case):
    allc = [c[0] for c in case["comps"]]
    cols = columns(case)
    idx = [allc.index(c) for c in cols]
    return cols, [[r[i] for i in idx] for r in case["rows"]]


def materialise(case, form, workdir, tag="t"):
    """-> datapoints value for run()/validate_dataset(), or None when this form cannot carry the content"""
    import pandas as pd
    from pathlib import Path
    cols, rows = table(case)
    os.makedirs(workdir, exist_ok=True)

    def cellv(x):
        return None if x == "" else x
    if form == "csv":
        p = os.path.join(workdir, f"{tag}.csv")
        with open(p, "w", encoding="utf-8", newline="") as f:
            f.write(",".join(cols) + "\n")
            for r in rows:
                f.write(",".join(_csvq(str(x)) for x in r) + "\n")
        return Path(p)
    if form == "df-object":
        return pd.DataFrame({c: [cellv(str(r[i])) if r[i] != "" else None for r in rows] for i, c in enumerate(cols)}, dtype=object)
    if form == "df-string":
        return pd.DataFrame({c: pd.array([cellv(str(r[i])) if r[i] != "" else None for r in rows], dtype="string") for i, c in enumerate(cols)})
    if form == "parquet-string":
        df = pd.DataFrame({c: pd.array([cellv(str(r[i])) if r[i] != "" else None for r in rows], dtype="string") for i, c in enumerate(cols)})
        p = os.path.join(workdir, f"{tag}.parquet")
        df.to_parquet(p, index=False)
        return Path(p)
    if form in ("df-native", "parquet-native", "df-native32"):
        data = {}
        types = {c[0]: c[1] for c in case["comps"]}
        for i, c in enumerate(cols):
            vals = [r[i] for r in rows]
            nat = native(types[c], vals)
            if nat is None:
                return None
            if form == "df-native32":
                # narrow numpy dtypes; only for values a float32 / int32 column can hold: its shortest decimal text must be the cell text
                import numpy as np
                if types[c] == "Number":
                    if any(v == "" for v in vals) or any(repr(float(np.float32(float(v)))) != repr(float(v)) and str(np.float32(float(v))) != str(float(v)) for v in vals):
                        return None
                    nat = np.array([float(v) for v in vals], dtype="float32")
                elif types[c] == "Integer":
                    if any(v == "" or abs(int(v)) >= 2 ** 31 for v in vals):
                        return None
                    nat = np.array([int(v) for v in vals], dtype="int32")
            data[c] = nat
        df = pd.DataFrame(data)
        if form == "df-native32" and not any(str(d) in ("float32", "int32") for d in df.dtypes):
            return None
        if form in ("df-native", "df-native32"):
            return df
        p = os.path.join(workdir, f"{tag}_n.parquet")
        df.to_parquet(p, index=False)
        return Path(p)
    raise ValueError(form)


def _csvq(s):
    if s == "":
        return ""
    if any(ch in s for ch in ',"\n'):
        return '"' + s.replace('"', '""') + '"'
    return s


def native(t, vals):
    """native-dtype column carrying the same content, or None if not representable"""
    import pandas as pd
    try:
        if t == "Integer":
            if not all(v == "" or re.fullmatch(r"-?\d+", str(v)) for v in vals):
                return None
            return pd.array([None if v == "" else int(v) for v in vals], dtype="Int64")
        if t == "Number":
            if not all(v == "" or isinstance(v, float) or re.fullmatch(r"-?\d+(\.\d+)?", str(v)) for v in vals):
                return None
            return pd.array([None if v == "" else float(v) for v in vals], dtype="Float64")
        if t == "Boolean":
            m = {"true": True, "false": False}
            if not all(v == "" or str(v).lower() in m for v in vals):
                return None
            return pd.array([None if v == "" else m[str(v).lower()] for v in vals], dtype="boolean")
        if t == "Date":
            if not all(v == "" or re.fullmatch(r"\d{4}-\d{2}-\d{2}", str(v)) for v in vals):
                return None
            out = []
            for v in vals:
                out.append(None if v == "" else datetime.date.fromisoformat(v))
            if any(x is not None and not (1800 <= x.year <= 2200) for x in out):
                return None
            return pd.to_datetime(pd.Series(out))
    except (ValueError, TypeError, OverflowError):
        return None
    return None


FORMS = ["csv", "df-object", "df-string", "parquet-string", "df-native", "parquet-native", "df-native32"]


def outcome(fn_status, res, case):
    """normalised outcome of run('DS_r <- DS_1;'): ('ok', canonical rows) | ('input-error', class) | ('other-error', class)"""
    from vf import eng
    if fn_status == "ok":
        ds = res["DS_r"]
        cols = [c for c in ds.components]
        rows = eng.rows_of(ds.data, cols)
        return ("ok", sorted([tuple(round(x, 10) if isinstance(x, float) else x for x in r) for r in rows], key=repr), cols)
    name, code, isvtl = eng.exc_info(res)
    if name in ("DataLoadError", "InputValidationException"):
        return ("input-error", name, code)
    return ("other-error", name, code)
