"""Structure / value conformance oracle used by C10 (and as a rider elsewhere)."""
from __future__ import annotations

import re

from vf.eng import isnull, norm

_DATE = re.compile(r"^\d{4}-\d{2}-\d{2}(T\d{2}:\d{2}:\d{2}(\.\d{1,6})?)?$")
_TP = {
    "vtl": re.compile(r"^\d{4}(|S[1-2]|Q[1-4]|M([1-9]|1[0-2])|W([1-9]|[1-4]\d|5[0-3])|D([1-9]|[1-9]\d|[1-3]\d\d))$"),
    "sdmx_reporting": re.compile(r"^\d{4}-(A1|S[1-2]|Q[1-4]|M(0[1-9]|1[0-2])|W(0[1-9]|[1-4]\d|5[0-3])|D(00[1-9]|0[1-9]\d|[1-3]\d\d))$"),
    "sdmx_gregorian": re.compile(r"^\d{4}(|-\d{2}|-\d{2}-\d{2})$"),
    "natural": re.compile(r"^\d{4}(|-S[1-2]|-Q[1-4]|-\d{2}|-W(0[1-9]|[1-4]\d|5[0-3])|-\d{2}-\d{2})$"),
}
_TIME = re.compile(r"^\d{4}-\d{2}-\d{2}(T\d{2}:\d{2}:\d{2})?/\d{4}-\d{2}-\d{2}(T\d{2}:\d{2}:\d{2})?$")
_DUR = re.compile(r"^([ASQMWD]|P\d+[YMWD])$")


def value_ok(v, tname, tp_format="vtl"):
    v = norm(v)
    if v is None:
        return True
    if tname == "Integer":
        return (isinstance(v, int) and not isinstance(v, bool)) or (isinstance(v, float) and v == int(v))
    if tname == "Number":
        return isinstance(v, (int, float)) and not isinstance(v, bool)
    if tname == "Boolean":
        return isinstance(v, bool)
    if tname == "String":
        return isinstance(v, str)
    if tname == "Date":
        return isinstance(v, str) and bool(_DATE.match(v))
    if tname == "TimePeriod":
        return isinstance(v, str) and bool(_TP.get(tp_format, _TP["vtl"]).match(v))
    if tname == "TimeInterval":
        return isinstance(v, str) and bool(_TIME.match(v))
    if tname == "Duration":
        return isinstance(v, str) and bool(_DUR.match(v))
    return True


def struct_of(ds):
    return [(n, c.data_type.__name__, c.role.value, bool(c.nullable)) for n, c in ds.components.items()]


def check_dataset(name, got, predicted, tp_format="vtl"):
    """Returns list of (mechanism, text). got: returned Dataset, predicted: Dataset from semantic_analysis."""
    out = []
    if got.name != name:
        out.append(("name", f"returned under key {name} but named {got.name}"))
    if predicted is not None:
        sg, sp = struct_of(got), struct_of(predicted)
        if sg != sp:
            if [c[0] for c in sg] != [c[0] for c in sp]:
                out.append(("component-names-or-order", f"{name}: {[c[0] for c in sg]} vs predicted {[c[0] for c in sp]}"))
            else:
                diffs = [(a, b) for a, b in zip(sg, sp) if a != b]
                kind = "types" if any(a[1] != b[1] for a, b in diffs) else (
                    "roles" if any(a[2] != b[2] for a, b in diffs) else "nullability")
                out.append((f"component-{kind}", f"{name}: {diffs[:3]}"))
    df = got.data
    if df is None:
        return out
    comps = list(got.components)
    if list(df.columns) != comps:
        out.append(("column-order-or-set", f"{name}: columns {list(df.columns)} vs components {comps}"))
        return out
    ids = [n for n, c in got.components.items() if c.role.value == "Identifier"]
    for n, c in got.components.items():
        col = df[n].tolist()
        t = c.data_type.__name__
        bad = next((v for v in col if not value_ok(v, t, tp_format)), None)
        if bad is not None:
            out.append((f"value-type/{t}", f"{name}.{n}: value {bad!r} ({type(bad).__name__}) is not a {t}"))
        if (c.role.value == "Identifier" or not c.nullable) and any(isnull(v) for v in col):
            out.append(("null-in-identifier" if c.role.value == "Identifier" else "null-in-non-nullable",
                        f"{name}.{n} holds null"))
    if ids:
        keys = list(zip(*[[repr(norm(v)) for v in df[i].tolist()] for i in ids]))
        if len(set(keys)) != len(keys):
            out.append(("duplicate-identifiers", f"{name}: {len(keys) - len(set(keys))} duplicated keys"))
    elif len(df) > 1:
        out.append(("no-identifiers-many-rows", f"{name}: {len(df)} rows without identifiers"))
    return out
