"""Upstream corpus: every tests/**/data/vtl/<code>.vtl of the current working tree with the inputs the
upstream helper would give it (file-naming convention of tests/Helper.py: DataStructure/input/<code>-<n>.json,
DataSet/input/<code>-<n>.csv, all value domains and SQL routines of that test directory).
No test code is executed; a case is usable for a monitor only if the engine accepts it (callers count the rest as
skipped)."""
from __future__ import annotations

import json
import os
import re
from pathlib import Path

REPO = os.environ.get("VTL_REPO", "/repo")


def scan(repo=None):
    repo = Path(repo or REPO)
    cases = []
    for vtl_dir in sorted((repo / "tests").rglob("data/vtl")):
        base = vtl_dir.parent
        area = str(base.parent.relative_to(repo / "tests"))
        js_in = base / "DataStructure" / "input"
        csv_in = base / "DataSet" / "input"
        if not js_in.is_dir():
            continue
        by_code = {}
        for f in sorted(js_in.iterdir()):
            if f.suffix != ".json":
                continue
            m = re.match(r"^(.*)-(?:DS_)?(\d+)$", f.stem)
            if m:
                by_code.setdefault(m.group(1), []).append((int(m.group(2)), f))
        vds = sorted((base / "ValueDomain").glob("*.json")) if (base / "ValueDomain").is_dir() else []
        sqls = sorted((base / "sql").glob("*.sql")) if (base / "sql").is_dir() else []
        for v in sorted(vtl_dir.glob("*.vtl")):
            code = v.stem
            ins = [f for _, f in sorted(by_code.get(code, []))]
            if not ins:
                continue
            cases.append({
                "id": f"{area}/{code}",
                "area": area,
                "vtl": str(v),
                "structures": [str(f) for f in ins],
                "csv": {f.stem: str(csv_in / (f.stem + ".csv")) for f in ins},
                "vds": [str(x) for x in vds],
                "sqls": [str(x) for x in sqls],
            })
    return cases


def load(case):
    """(script, data_structures(list of dict), datapoints(dict name->csv path or None), value_domains, routines)"""
    script = Path(case["vtl"]).read_text()
    structs = []
    dps = {}
    for p in case["structures"]:
        with open(p) as f:
            s = json.load(f)
        structs.append(s)
        csvp = case["csv"][Path(p).stem]
        for ds in s.get("datasets", []):
            dps[ds["name"]] = Path(csvp) if os.path.exists(csvp) else None
    vds = []
    for p in case["vds"]:
        with open(p) as f:
            vds.append(json.load(f))
    routines = []
    for p in case["sqls"]:
        routines.append({"name": Path(p).stem, "query": Path(p).read_text()})
    return script, structs, dps, (vds or None), (routines or None)


def run_kwargs(case):
    script, structs, dps, vds, routines = load(case)
    kw = {"script": script, "data_structures": structs, "datapoints": {k: v for k, v in dps.items() if v is not None}}
    if vds:
        kw["value_domains"] = vds
    if routines:
        kw["external_routines"] = routines
    return kw


def shard_of(cases, i, n):
    return [c for j, c in enumerate(cases) if j % n == i]
