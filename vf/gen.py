"""Typed generators shared by the property modules: value pools, structures, datapoint tables,
VTL literal rendering. Everything is driven by an explicit random.Random."""
from __future__ import annotations

import random


ID_TYPES = ["Integer", "String", "Date", "Time_Period"]
MEASURE_TYPES = ["Integer", "Number", "String", "Boolean", "Date", "Time_Period", "Time", "Duration"]

POOLS = {
    "Integer": [0, 1, -1, 2, 3, 7, 10, -25, 100, 12345, -99999, 2 ** 31, -(2 ** 31) - 1, 9007199254740993, 42],
    "Number": [0.0, 1.0, -1.0, 0.5, -0.5, 2.25, 3.75, 10.125, -7.5, 1234.5678, 0.000001, 999999.999999,
               -123456.75, 1e6, 100.0, 3.0],
    "String": ["", "a", "A", "b", "abc", "hello world", " pad ", "ñandú", "日本語", "O'Brien", "x_y", "100",
               "ab", "Zz", "null", "comma,inside", "émoji😀"],
    "Boolean": [True, False],
    "Date": ["2020-01-15", "2019-12-31", "2020-02-29", "2000-01-01", "1999-12-31", "2021-07-04", "2024-12-30",
             "1900-03-01", "2100-12-31"],
    "Time_Period": ["2020", "2020S1", "2020S2", "2020Q1", "2020Q4", "2020M1", "2020M12", "2020W1", "2020W53",
                    "2020D1", "2020D366", "2021Q2", "2019M6"],
    "Time": ["2020-01-01/2020-12-31", "2020-01-01/2020-01-01", "2019-06-01/2019-06-30", "2000-01-01/2099-12-31"],
    "Duration": ["A", "S", "Q", "M", "W", "D"],
}
ID_POOLS = {
    "Integer": [1, 2, 3, 4, 5, 6, 7, -1, 0, 100],
    "String": ["a", "b", "c", "A", "x y", "ñ", "k1", "k2", ""],
    "Date": ["2020-01-15", "2020-01-16", "2020-02-29", "2019-12-31", "2021-01-01", "2000-06-30"],
    "Time_Period": ["2020", "2021", "2020Q1", "2020Q2", "2020M1", "2020M2", "2020S1", "2020W10", "2020D100"],
}


def rvalue(rng: random.Random, typ: str, null_p=0.2, pool=None):
    if rng.random() < null_p:
        return None
    return rng.choice(pool or POOLS[typ])


def rand_comps(rng, n_ids=(1, 2), n_meas=(1, 2), id_types=("Integer", "String"),
               meas_types=("Integer", "Number", "String", "Boolean"), n_attr=(0, 0)):
    comps = []
    for i in range(rng.randint(*n_ids)):
        comps.append((f"Id_{i + 1}", rng.choice(id_types), "Identifier", False))
    for i in range(rng.randint(*n_meas)):
        comps.append((f"Me_{i + 1}", rng.choice(meas_types), "Measure", True))
    for i in range(rng.randint(*n_attr)):
        comps.append((f"At_{i + 1}", rng.choice(meas_types), "Attribute", True))
    return comps


def key_space(rng, comps, per_id=3):
    """A small list of distinct identifier tuples to draw rows from (so operands overlap)."""
    pools = []
    for (n, t, role, *_r) in comps:
        if role == "Identifier":
            p = list(ID_POOLS[t])
            rng.shuffle(p)
            pools.append(p[:per_id])
    keys = [()]
    for p in pools:
        keys = [k + (v,) for k in keys for v in p]
    return keys


def rand_rows(rng, comps, keys, n=None, null_p=0.2, pools=None):
    """Rows with distinct identifier keys drawn from `keys`; measures from the pools."""
    keys = list(keys)
    rng.shuffle(keys)
    if n is None:
        n = rng.randint(0, len(keys))
    keys = keys[:n]
    nid = sum(1 for c in comps if c[2] == "Identifier")
    rows = []
    for k in keys:
        row = list(k)
        for (name, t, role, *_r) in comps[nid:]:
            nullable = _r[0] if _r else True
            row.append(rvalue(rng, t, null_p if nullable else 0.0, (pools or {}).get(t)))
        rows.append(tuple(row))
    return rows


def frame(comps, rows, rng=None, shuffle_cols=False):
    from vf.eng import mkdf
    cols = [c[0] for c in comps]
    df = mkdf(cols, rows)
    if shuffle_cols and rng is not None:
        order = cols[:]
        rng.shuffle(order)
        df = df[order]
    return df


def lit(v, typ=None):
    """VTL literal for a python value."""
    if v is None:
        return "null"
    if typ in ("Date",):
        return f'cast("{v}", date)'
    if typ in ("Time_Period",):
        return f'cast("{v}", time_period)'
    if typ in ("Time",):
        return f'cast("{v}", time)'
    if typ in ("Duration",):
        return f'cast("{v}", duration)'
    if isinstance(v, bool):
        return "true" if v else "false"
    if isinstance(v, int):
        return str(v) if v >= 0 else f"({v})"
    if isinstance(v, float):
        s = repr(v)
        if "e" in s or "E" in s:
            s = f"{v:.10f}".rstrip("0")
            if s.endswith("."):
                s += "0"
        return s if v >= 0 else f"({s})"
    return '"' + str(v).replace('"', '""') + '"'
