"""Helpers shared by all property modules (worker side): boot the engine from the current working
tree, build structures, canonicalise results, compare datapoint sets, connection proxy."""
from __future__ import annotations

import contextlib
import math
import os
import re
import shutil
import sys
import time

import vboot  # noqa: F401  (installs the parser stand-in, adds <repo>/src to sys.path)
import pandas as pd

import vtlengine  # noqa: E402
import vtlengine.API as API  # noqa: E402
from vtlengine import run, semantic_analysis  # noqa: E402,F401
from vtlengine.Exceptions import VTLEngineException  # noqa: E402
from vtlengine.Model import Dataset, Scalar  # noqa: E402

REPO = vboot.REPO
SCRATCH = os.environ.get("VERIF_SCRATCH") or os.path.join(
    os.path.dirname(os.path.dirname(os.path.abspath(__file__))), ".scratch", f"adhoc-{os.getpid()}")
os.makedirs(SCRATCH, exist_ok=True)

TYPE_NAMES = ["Integer", "Number", "String", "Boolean", "Date", "Time_Period", "Time", "Duration"]


def comp(name, typ, role, nullable=None):
    if nullable is None:
        nullable = role != "Identifier"
    return {"name": name, "type": typ, "role": role, "nullable": nullable}


def mkds(name, comps):
    """comps: list of (name, type, role[, nullable])"""
    return {"name": name, "DataStructure": [comp(*c) for c in comps]}


def structures(*dss, scalars=None):
    d = {"datasets": list(dss)}
    if scalars:
        d["scalars"] = [{"name": n, "type": t} for n, t in scalars]
    return d


def mkdf(columns, rows):
    """DataFrame of python objects (None for null) from a list of row tuples."""
    data = {c: [r[i] for r in rows] for i, c in enumerate(columns)}
    return pd.DataFrame(data, columns=list(columns), dtype=object) if rows else pd.DataFrame(
        {c: pd.Series([], dtype=object) for c in columns})


def isnull(v):
    if v is None or v is pd.NA or v is pd.NaT:
        return True
    try:
        return isinstance(v, float) and math.isnan(v)
    except TypeError:
        return False


def norm(v):
    """Canonical python value of a cell."""
    if isnull(v):
        return None
    if hasattr(v, "item") and not isinstance(v, (str, bytes)):
        try:
            v = v.item()
        except Exception:
            pass
    if isinstance(v, bool):
        return v
    if isinstance(v, float) and v == int(v) and abs(v) < 2 ** 53:
        return float(v)
    return v


def rows_of(df, cols=None):
    """list of tuples (canonical cells) in column order `cols` (default df.columns)."""
    if df is None:
        return None
    cols = list(df.columns) if cols is None else list(cols)
    # a declared component without a column in the returned data must surface as a mismatch, not crash the monitor
    arrs = [df[c].tolist() if c in df.columns else ["<column missing in returned data>"] * len(df) for c in cols]
    return [tuple(norm(a[i]) for a in arrs) for i in range(len(df))]


def close(a, b, tol=1e-9):
    if a is None or b is None:
        return a is None and b is None
    if isinstance(a, bool) or isinstance(b, bool):
        return isinstance(a, bool) and isinstance(b, bool) and a == b
    if isinstance(a, (int, float)) and isinstance(b, (int, float)):
        if isinstance(a, float) and (math.isinf(a) or math.isnan(a)):
            return a == b
        return abs(a - b) <= tol * max(1.0, abs(a), abs(b))
    return a == b


def _key(row, nkeys):
    return tuple(("\0null" if c is None else (("b", c) if isinstance(c, bool) else c)) for c in row[:nkeys])


def same_rowset(actual, expected, nkeys=None, tol=1e-9):
    """Compare two lists of row tuples as multisets. Rows are matched on the first nkeys cells when
    given (identifier columns first), else sorted by repr. Returns None if equal, else a short text."""
    if len(actual) != len(expected):
        return f"row count {len(actual)} != expected {len(expected)}"
    if nkeys:
        try:
            da = {}
            for r in actual:
                da.setdefault(_key(r, nkeys), []).append(r)
            de = {}
            for r in expected:
                de.setdefault(_key(r, nkeys), []).append(r)
        except TypeError:
            da = de = None
        if da is not None:
            if set(da) != set(de):
                miss = list(set(de) - set(da))[:3]
                extra = list(set(da) - set(de))[:3]
                return f"keys differ: missing {miss} unexpected {extra}"
            for k, ra in da.items():
                re_ = de[k]
                if len(ra) != len(re_):
                    return f"key {k}: {len(ra)} rows vs {len(re_)} expected"
                if len(ra) == 1:
                    if not all(close(x, y, tol) for x, y in zip(ra[0], re_[0])):
                        return f"key {k}: got {ra[0]} expected {re_[0]}"
                else:
                    sa = sorted(ra, key=repr)
                    se = sorted(re_, key=repr)
                    for x, y in zip(sa, se):
                        if not all(close(p, q, tol) for p, q in zip(x, y)):
                            return f"key {k} (duplicated): got {sa} expected {se}"
            return None
    sa = sorted(actual, key=_sortkey)
    se = sorted(expected, key=_sortkey)
    for x, y in zip(sa, se):
        if len(x) != len(y) or not all(close(p, q, tol) for p, q in zip(x, y)):
            return f"row {x} vs expected {y}"
    return None


def _sortkey(row):
    return tuple((0, "") if c is None else (1, repr(round(c, 6)) if isinstance(c, float) else repr(c)) for c in row)


def ds_rows(ds, order=None):
    """(column list, rows) of a returned Dataset with identifiers first (stable compare key)."""
    ids = [n for n, c in ds.components.items() if c.role.value == "Identifier"]
    others = [n for n in ds.components if n not in ids]
    cols = ids + others
    if ds.data is None:
        return cols, None, len(ids)
    missing = [c for c in cols if c not in ds.data.columns]
    if missing:
        return cols, ("missing-columns", missing), len(ids)
    return cols, rows_of(ds.data, cols), len(ids)


def result_digest(res):
    """Order-insensitive canonical form of a run() result dict (for equality between runs)."""
    out = {}
    for name, obj in res.items():
        if isinstance(obj, Dataset):
            cols, rows, nk = ds_rows(obj)
            struct = [(n, c.data_type.__name__, c.role.value, c.nullable) for n, c in obj.components.items()]
            out[name] = ("ds", struct, None if rows is None else sorted(
                [tuple(round(c, 9) if isinstance(c, float) else c for c in r) for r in rows], key=_sortkey)
                if not isinstance(rows, tuple) else rows)
        elif isinstance(obj, Scalar):
            out[name] = ("sc", obj.data_type.__name__, norm(obj.value))
        else:
            out[name] = ("other", repr(obj))
    return out


def digests_equal(a, b, tol=1e-9):
    if set(a) != set(b):
        return f"result names differ: {sorted(a)} vs {sorted(b)}"
    for k in a:
        x, y = a[k], b[k]
        if x[0] != y[0]:
            return f"{k}: kind {x[0]} vs {y[0]}"
        if x[0] == "ds":
            if sorted(x[1]) != sorted(y[1]):
                return f"{k}: structure {x[1]} vs {y[1]}"
            if [c[0] for c in x[1]] != [c[0] for c in y[1]]:
                return f"{k}: component order {[c[0] for c in x[1]]} vs {[c[0] for c in y[1]]}"
            if (x[2] is None) != (y[2] is None):
                return f"{k}: data presence differs"
            if x[2] is not None:
                nk = sum(1 for c in x[1] if c[2] == "Identifier")
                d = same_rowset(x[2], y[2], nk, tol)
                if d:
                    return f"{k}: {d}"
        elif x[0] == "sc":
            if x[1] != y[1] or not close(x[2], y[2], tol):
                return f"{k}: scalar {x[1:]} vs {y[1:]}"
        elif x != y:
            return f"{k}: {x} vs {y}"
    return None


def exc_info(e):
    """(class name, code or None, is_vtl)"""
    code = None
    if isinstance(e, VTLEngineException):
        code = e.args[1] if len(e.args) > 1 else getattr(e, "code", None)
    return type(e).__name__, code, isinstance(e, VTLEngineException)


def raise_site(e):
    """innermost frame of the traceback that lies in the engine's source: 'file.py:function'"""
    tb = e.__traceback__
    site = None
    while tb is not None:
        fn = tb.tb_frame.f_code.co_filename
        if "/vtlengine/" in fn:
            site = f"{os.path.basename(fn)}:{tb.tb_frame.f_code.co_name}"
        tb = tb.tb_next
    return site or "outside-engine"


def call(fn, *a, **k):
    """('ok', value) | ('exc', exception)"""
    try:
        return "ok", fn(*a, **k)
    except Exception as e:  # noqa: BLE001
        return "exc", e


def df_to_jsonable(df):
    return {"columns": list(df.columns), "rows": [list(r) for r in rows_of(df)], "dtypes": [str(t) for t in df.dtypes]}


def df_from_jsonable(j):
    return mkdf(j["columns"], [tuple(r) for r in j["rows"]])


# ------------------------------------------------------------------------------------------------
# DuckDB connection proxy (source-free hook): SQL event log + failpoint at the k-th call
# ------------------------------------------------------------------------------------------------
class InjectedFault(Exception):
    pass


_CLASS = [
    (re.compile(r'^CREATE (?:OR REPLACE )?(?:TEMP(?:ORARY)? )?TABLE (?:IF NOT EXISTS )?"([^"]+)" AS', re.I), "stmt"),
    (re.compile(r'^CREATE (?:OR REPLACE )?(?:TEMP(?:ORARY)? )?TABLE (?:IF NOT EXISTS )?"([^"]+)"\s*\(', re.I), "load-create"),
    (re.compile(r'^DROP (?:TABLE|VIEW) (?:IF EXISTS )?"([^"]+)"', re.I), "drop"),
    (re.compile(r'^INSERT INTO "([^"]+)"', re.I), "load-insert"),
    (re.compile(r'^UPDATE "([^"]+)"', re.I), "update"),
    (re.compile(r'^ALTER TABLE "([^"]+)"', re.I), "alter"),
    (re.compile(r'^COPY', re.I), "copy"),
    (re.compile(r'^SELECT', re.I), "select"),
    (re.compile(r'^DESCRIBE', re.I), "describe"),
    (re.compile(r'^(?:SET|PRAGMA)', re.I), "set"),
    (re.compile(r'^CREATE (?:OR REPLACE )?(?:TEMP(?:ORARY)? )?MACRO', re.I), "macro"),
    (re.compile(r'^CREATE (?:OR REPLACE )?(?:TEMP(?:ORARY)? )?(?:VIEW)\s+"?([^"\s]+)', re.I), "view"),
]


def classify_sql(sql):
    s = " ".join(str(sql).split())
    for rx, kind in _CLASS:
        m = rx.match(s)
        if m:
            return kind, (m.group(1) if m.groups() else "")
    return "other", s[:60]


class ConnProxy:
    """Thin proxy around a DuckDBPyConnection; everything not intercepted is forwarded."""

    def __init__(self, real, state):
        object.__setattr__(self, "_r", real)
        object.__setattr__(self, "_s", state)

    def _ev(self, kind, arg):
        s = self._s
        s["n"] += 1
        text = arg if isinstance(arg, str) else repr(arg)[:80]
        s["log"].append((kind, text))
        if s.get("fail_at") is not None and s["n"] == s["fail_at"]:
            s["fired"] = True
            raise s.get("fault_factory", lambda k: InjectedFault(f"injected fault at DB call {k}"))(s["n"])

    def execute(self, sql, *a, **k):
        self._ev("execute", sql)
        r = self._r.execute(sql, *a, **k)
        return self if r is self._r else r

    def sql(self, sql, *a, **k):
        self._ev("sql", sql)
        return self._r.sql(sql, *a, **k)

    def register(self, name, obj):
        self._ev("register", name)
        return self._r.register(name, obj)

    def unregister(self, name):
        self._ev("unregister", name)
        return self._r.unregister(name)

    def table(self, name):
        self._ev("table", name)
        return self._r.table(name)

    def close(self):
        self._s["log"].append(("close", ""))
        return self._r.close()

    def __getattr__(self, n):
        return getattr(self._r, n)

    def __setattr__(self, n, v):
        setattr(self._r, n, v)


class ProxyState(dict):
    def reset(self, fail_at=None, fault_factory=None):
        self.update(n=0, log=[], fail_at=fail_at, fired=False, real=None, database=None)
        if fault_factory:
            self["fault_factory"] = fault_factory
        else:
            self.pop("fault_factory", None)


PROXY = ProxyState()
PROXY.reset()
_proxy_installed = False


def install_conn_proxy():
    """Wrap the name run() calls (vtlengine.API.configured_connection)."""
    global _proxy_installed
    if _proxy_installed:
        return
    orig = API.configured_connection

    @contextlib.contextmanager
    def cc(*a, **k):
        with orig(*a, **k) as conn:
            PROXY["real"] = conn
            PROXY["entered"] = PROXY.get("entered", 0) + 1
            yield ConnProxy(conn, PROXY)

    API.configured_connection = cc
    _proxy_installed = True


CONNECTIONS = []     # every DuckDB connection handed out by duckdb.connect since the last census reset (see install_connect_census)
_census_installed = False


def install_connect_census():
    """Wrap duckdb.connect (the module attribute the engine calls) so that every connection it opens is recorded."""
    global _census_installed
    if _census_installed:
        return
    import duckdb
    orig = duckdb.connect

    def connect(*a, **k):
        conn = orig(*a, **k)
        CONNECTIONS.append(conn)
        return conn

    duckdb.connect = connect
    _census_installed = True


def conn_is_closed(conn):
    try:
        conn.execute("select 1")
        return False
    except Exception:  # noqa: BLE001
        return True


def tmp_listing():
    d = os.environ.get("VTL_TEMP_DIRECTORY")
    if not d or not os.path.isdir(d):
        return []
    return sorted(os.listdir(d))


def clean_tmp():
    d = os.environ.get("VTL_TEMP_DIRECTORY")
    if d and os.path.isdir(d):
        for n in os.listdir(d):
            p = os.path.join(d, n)
            shutil.rmtree(p, ignore_errors=True) if os.path.isdir(p) else os.unlink(p)


class Budget:
    """Logical + wall-clock budget for a shard (wall clock only stops generation; never a verdict)."""

    def __init__(self, seconds):
        self.t0 = time.time()
        # generation stops after min(requested, cap) seconds per shard; default cap 900 s keeps a thorough tier near
        # 15-20 min; VERIF_BUDGET_S=2400 (or more) deepens it, a smaller value time-boxes a sweep
        cap = float(os.environ.get("VERIF_BUDGET_S", "900") or 900)
        self.seconds = min(seconds, cap) if cap > 0 else seconds

    def left(self):
        return self.seconds - (time.time() - self.t0)

    def ok(self):
        return self.left() > 0
