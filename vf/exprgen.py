"""Typed random generator of element-wise VTL expressions (trees of vf.model) over a set of named operands."""
from __future__ import annotations

import random

NUMERIC = ("Integer", "Number")
C_INT = [0, 1, 2, 3, 5, 10, -1, -7, 100]
C_NUM = [0.5, 1.5, 2.25, 10.0, -0.75, 0.1, 3.0, 100.125]
C_STR = ["a", "ab", "hello", " x ", "", "A", "lo", "Zz"]


def const(rng, t):
    if t == "Integer":
        return ("k", rng.choice(C_INT), "Integer")
    if t == "Number":
        return ("k", rng.choice(C_NUM), "Number")
    if t == "String":
        return ("k", rng.choice(C_STR), "String")
    if t == "Boolean":
        return ("k", rng.choice([True, False]), "Boolean")
    raise ValueError(t)


class Gen:
    """operands: dict name -> type (components of the current dataset, or scalar variables)."""

    def __init__(self, rng: random.Random, operands, allow_null_const=True, funcs=True):
        self.rng = rng
        self.ops = operands
        self.allow_null = allow_null_const
        self.funcs = funcs
        self.used = set()

    def leaf(self, t):
        rng = self.rng
        cands = [n for n, ty in self.ops.items() if ty == t or (t == "Number" and ty == "Integer")]
        if cands and rng.random() < 0.75:
            n = rng.choice(cands)
            self.used.add(n)
            return ("c", n)
        return const(rng, t)

    def expr(self, t, d):
        rng = self.rng
        if d <= 0 or rng.random() < 0.15:
            return self.leaf(t)
        if t in NUMERIC:
            return self.numeric(t, d)
        if t == "String":
            return self.string(d)
        if t == "Boolean":
            return self.boolean(d)
        return self.leaf(t)

    def has_comp(self, node):
        if node[0] == "c":
            return True
        if node[0] == "op":
            return any(self.has_comp(c) for c in node[2])
        return False

    def cond(self, d):
        """boolean condition that refers to a component when operands exist (constant conditions / constant first
        arguments of nvl over component operands are outside the generated subset)"""
        for _ in range(6):
            e = self.expr("Boolean", max(1, d))
            if not self.ops or self.has_comp(e):
                return e
        n = next((n for n, t in self.ops.items() if t in NUMERIC), None)
        return self.op(">", ("c", n), const(self.rng, "Integer")) if n else e

    def withcomp(self, t, d):
        for _ in range(6):
            e = self.expr(t, d)
            if not self.ops or self.has_comp(e):
                return e
        return e

    def op(self, name, *ch):
        self.used.add("op:" + name)
        if name == "nvl" and self.ops and not self.has_comp(ch[0]):
            # nvl(<constant expression>, <component expression>) is outside the generated subset
            return ch[0] if not self.has_comp(ch[1]) else ("op", "nvl", [ch[1], ch[0]])
        return ("op", name, list(ch))

    def numeric(self, t, d):
        rng = self.rng
        r = rng.random()
        sub = lambda: self.expr(rng.choice(NUMERIC) if t == "Number" else "Integer", d - 1)  # noqa: E731
        if r < 0.45:
            o = rng.choice(["+", "-", "*"] + (["/"] if t == "Number" else []))
            return self.op(o, sub(), sub())
        if r < 0.52:
            return self.op(rng.choice(["neg", "pos"]), sub())
        if r < 0.60:
            return self.op("if", self.cond(d - 1), self.expr(t, d - 1), self.expr(t, d - 1))
        if r < 0.66:
            return self.op("nvl", self.withcomp(t, d - 1), self.expr(t, d - 1))
        if r < 0.70:
            return self.op("case", self.cond(d - 1), self.expr(t, d - 1), self.cond(d - 1), self.expr(t, d - 1), self.expr(t, d - 1))
        if not self.funcs:
            return self.op(rng.choice(["+", "-", "*"]), sub(), sub())
        if t == "Integer":
            f = rng.choice(["abs", "ceil", "floor", "length", "instr", "mod", "round0", "trunc0"])
            if f == "abs":
                return self.op("abs", self.expr("Integer", d - 1))
            if f in ("ceil", "floor"):
                return self.op(f, self.expr("Number", d - 1))
            if f == "length":
                return self.op("length", self.expr("String", d - 1))
            if f == "instr":
                return self.op("instr", self.expr("String", d - 1), ("k", rng.choice(["a", "l", "lo", "x"]), "String"))
            if f == "mod":
                return self.op("mod", self.op("abs", self.expr("Integer", d - 1)), ("k", rng.choice([2, 3, 7]), "Integer"))
            return self.op("abs", self.expr("Integer", d - 1))
        f = rng.choice(["abs", "exp", "ln", "sqrt", "round", "trunc", "power", "log", "mod"])
        if f == "abs":
            return self.op("abs", sub())
        if f == "exp":
            return self.op("exp", self.op("/", sub(), ("k", 100.0, "Number")))
        if f in ("ln", "sqrt"):
            return self.op(f, sub() if rng.random() < 0.4 else self.op("abs", sub()))
        if f in ("round", "trunc"):
            return self.op(f, sub(), ("k", rng.choice([0, 1, 2, 3]), "Integer")) if rng.random() < 0.7 else self.op(f, sub())
        if f == "power":
            return self.op("power", sub(), ("k", rng.choice([0, 1, 2, 3]), "Integer"))
        if f == "log":
            return self.op("log", sub() if rng.random() < 0.4 else self.op("abs", sub()), ("k", rng.choice([2, 10, 0.5]), "Number"))
        return self.op("mod", self.op("abs", sub()), ("k", rng.choice([2, 3, 0.5]), "Number"))

    def string(self, d):
        rng = self.rng
        r = rng.random()
        s = lambda: self.expr("String", d - 1)  # noqa: E731
        if r < 0.35:
            return self.op("||", s(), s())
        if r < 0.45:
            return self.op("if", self.cond(d - 1), s(), s())
        if r < 0.52:
            return self.op("nvl", self.withcomp("String", d - 1), s())
        if not self.funcs:
            return self.op("||", s(), s())
        f = rng.choice(["upper", "lower", "trim", "ltrim", "rtrim", "substr", "replace"])
        if f == "substr":
            args = [s(), ("k", rng.choice([1, 2, 3, 10]), "Integer")]
            if rng.random() < 0.6:
                args.append(("k", rng.choice([0, 1, 2, 5]), "Integer"))
            return self.op("substr", *args)
        if f == "replace":
            args = [s(), ("k", rng.choice(["a", "l", "lo", " "]), "String")]
            if rng.random() < 0.7:
                args.append(("k", rng.choice(["X", "", "aa"]), "String"))
            return self.op("replace", *args)
        return self.op(f, s())

    def boolean(self, d):
        rng = self.rng
        r = rng.random()
        if r < 0.40:
            t = rng.choice(["Integer", "Number", "String", "Number"])
            o = rng.choice(["=", "<>", "<", ">", "<=", ">="])
            return self.op(o, self.expr(t, d - 1), self.expr(t, d - 1))
        if r < 0.62:
            return self.op(rng.choice(["and", "or", "xor"]), self.expr("Boolean", d - 1), self.expr("Boolean", d - 1))
        if r < 0.70:
            return self.op("not", self.expr("Boolean", d - 1))
        if r < 0.78:
            t = rng.choice(["Integer", "Number", "String"])
            return self.op("isnull", self.expr(t, d - 1))
        if r < 0.87:
            t = rng.choice(["Integer", "Number", "String"])
            return self.op("between", self.expr(t, d - 1), const(rng, t), const(rng, t))
        if r < 0.95:
            t = rng.choice(["Integer", "String"])
            items = []
            for _ in range(rng.randint(1, 3)):
                c = const(rng, t)
                if c not in items:          # a VTL set has no duplicates
                    items.append(c)
            return self.op(rng.choice(["in", "not_in"]), self.expr(t, d - 1), ("set", items))
        return self.op("if", self.cond(d - 1), self.expr("Boolean", d - 1), self.expr("Boolean", d - 1))


def result_type(node, operands):
    """best-effort static type of a tree (Integer/Number/String/Boolean)"""
    k = node[0]
    if k == "c":
        return operands[node[1]]
    if k == "k":
        return node[2]
    op, ch = node[1], node[2]
    if op in ("=", "<>", "<", ">", "<=", ">=", "and", "or", "xor", "not", "isnull", "between", "in", "not_in"):
        return "Boolean"
    if op in ("||", "upper", "lower", "trim", "ltrim", "rtrim", "substr", "replace"):
        return "String"
    if op in ("length", "instr", "ceil", "floor"):
        return "Integer"
    if op in ("/", "exp", "ln", "sqrt", "log", "power"):
        return "Number"
    if op in ("if",):
        return _join(result_type(ch[1], operands), result_type(ch[2], operands))
    if op == "case":
        t = result_type(ch[-1], operands)
        for v in ch[1:-1:2]:
            t = _join(t, result_type(v, operands))
        return t
    if op == "nvl":
        return _join(result_type(ch[0], operands), result_type(ch[1], operands))
    if op in ("+", "-", "*", "mod"):
        return _join(result_type(ch[0], operands), result_type(ch[1], operands))
    if op in ("neg", "pos", "abs", "round", "trunc"):
        return result_type(ch[0], operands)
    return "Number"


def _join(a, b):
    if a == b:
        return a
    if {a, b} <= set(NUMERIC):
        return "Number"
    return a
